#!/bin/bash
# Runs every registered quick (or $1=thorough) check on /repo as it is; prints one line per check.
cd /verif
tier=${1:-quick}
fail=0
for id in $(python3 -c "import json;print(' '.join(c['property_id'] for c in json.load(open('MANIFEST.json'))['checks']))"); do
  out=$(python3 check.py $id --tier $tier 2>&1); rc=$?
  echo "$id rc=$rc $(echo "$out" | tail -1)"
  if [ $rc -ne 0 ]; then fail=1; echo "$out" | head -20; fi
done
exit $fail
