#!/usr/bin/env python3
"""Automated sensitivity sweep: token-level mutants of /repo's sources, each built into a scratch
copy of the simulator and run through the simulator-decided properties at quick-tier size.

  python3 tools/automut.py [--workers 6] [--files src/streams/control.rs,...] [--limit N]
                           [--out /verif/automut/results.jsonl] [--only-op OP] [--resume]

Nothing in /repo or /verif/target is touched: every worker has its own copy of the repository
sources and of the simulator crate under /tmp/automut/w<k> (removed at the end). A mutant is
"killed" when some batch reports a failing run (or the simulator itself dies / hangs), "survived"
otherwise, "nocompile" when it does not build. Survivors are then run against the repository's own
test suite (informational: a survivor that the suite also passes is the interesting kind).

Stages outside the simulator binary (Miri, shuttle, the five other feature builds) are NOT run here,
so survivors in code only they decide (reference.rs, cfg-dependent code) are expected.
"""
import argparse, json, os, re, shutil, subprocess, sys, threading, time, queue

REPO = "/repo"
V = "/verif"
SCRATCH = "/tmp/automut"

# which simulator properties are run for a mutant of each file, most likely killer first
ALL = ["C02", "C03", "C04", "C05", "C08", "C09", "C10", "C11", "C12", "C13", "C15", "C20", "C19", "C16", "C17"]
FILE_PROPS = {
    "src/streams/control.rs": ["C04", "C11", "C12", "C05", "C20", "C19"],
    "src/streams/math.rs": ["C02", "C10", "C05", "C03", "C16", "C04", "C19"],
    "src/streams/converters.rs": ["C10", "C02", "C05", "C19"],
    "src/streams/logic.rs": ["C02", "C03", "C19"],
    "src/streams/flow.rs": ["C02", "C05", "C03", "C19"],
    "src/streams.rs": ["C02", "C03", "C19"],
    "src/devices.rs": ["C08", "C13", "C03", "C16", "C19"],
    "src/devices/wrappers.rs": ["C20", "C19"],
    "src/lib.rs": ["C09", "C15", "C03", "C13", "C08", "C20", "C02", "C04", "C11", "C19", "C17"],
    "src/datum.rs": ["C03", "C02", "C08", "C19"],
    "src/state.rs": ["C08", "C03", "C11", "C10", "C19", "C09"],
    "src/command.rs": ["C13", "C11", "C03", "C19", "C20"],
    "src/dimensions.rs": ["C19", "C10", "C02", "C12", "C03"],
    "src/motion_profile.rs": ["C19", "C15"],
    "src/reference.rs": ["C17", "C16", "C02"],
    "src/enhanced_float.rs": ["C12", "C19"],
}

SKIP_LINE = re.compile(r"^\s*(//|#\[|#!\[|use |pub use |impl\b|impl<|where\b|pub fn |fn |pub trait |trait |pub struct |struct |pub enum |enum |type |pub type |pub const fn |const fn |mod |pub mod |macro_rules|extern |unsafe impl)")

OPS = [
    ("add->sub", re.compile(r"(?<=[\w\)\]]) \+ (?=[\w\(\-\*&])"), " - "),
    ("sub->add", re.compile(r"(?<=[\w\)\]]) - (?=[\w\(\*&])"), " + "),
    ("mul->div", re.compile(r"(?<=[\w\)\]]) \* (?=[\w\(\-&])"), " / "),
    ("div->mul", re.compile(r"(?<=[\w\)\]]) / (?=[\w\(\-&])"), " * "),
    ("addassign->subassign", re.compile(r" \+= "), " -= "),
    ("subassign->addassign", re.compile(r" -= "), " += "),
    ("mulassign->divassign", re.compile(r" \*= "), " /= "),
    ("divassign->mulassign", re.compile(r" /= "), " *= "),
    ("lt->le", re.compile(r"(?<=[\w\)\]]) < (?=[\w\(\-&])"), " <= "),
    ("le->lt", re.compile(r" <= "), " < "),
    ("gt->ge", re.compile(r"(?<=[\w\)\]]) > (?=[\w\(\-&])"), " >= "),
    ("ge->gt", re.compile(r" >= "), " > "),
    ("lt->gt", re.compile(r"(?<=[\w\)\]]) < (?=[\w\(\-&])"), " > "),
    ("gt->lt", re.compile(r"(?<=[\w\)\]]) > (?=[\w\(\-&])"), " < "),
    ("eq->ne", re.compile(r" == "), " != "),
    ("ne->eq", re.compile(r" != "), " == "),
    ("and->or", re.compile(r" && "), " || "),
    ("or->and", re.compile(r" \|\| "), " && "),
    ("drop-not", re.compile(r"(?<=[\(\s])!(?=[a-z_\(])"), ""),
    ("max->min", re.compile(r"\.max\("), ".min("),
    ("min->max", re.compile(r"\.min\("), ".max("),
    ("0.0->1.0", re.compile(r"(?<![\w\.])0\.0(?![\w\.])"), "1.0"),
    ("1.0->0.0", re.compile(r"(?<![\w\.])1\.0(?![\w\.])"), "0.0"),
    ("2.0->1.0", re.compile(r"(?<![\w\.])2\.0(?![\w\.])"), "1.0"),
    ("1->0", re.compile(r"(?<=[\s\(\[])1(?=[\s\)\];,])"), "0"),
    ("0->1", re.compile(r"(?<=[\s\(\[])0(?=[\s\)\];,])"), "1"),
    ("true->false", re.compile(r"\btrue\b"), "false"),
    ("false->true", re.compile(r"\bfalse\b"), "true"),
    ("Some->None", re.compile(r"= Some\([^()]*(\([^()]*\))?[^()]*\);$"), "= None;"),
    ("OkNone->keep", re.compile(r"^(\s*)self\.(\w+) = Ok\(None\);$"), r"\1let _ = &self.\2;"),
    ("swallow-err", re.compile(r"^(\s*)([a-z_][\w\.\(\)]*\.(update|set|impl_set|following_update|update_following_data)\([^;]*\))\?;$"), r"\1let _ = \2;"),
    ("drop-question", re.compile(r"^(\s*)(self\.[\w\.\(\)]*\.borrow(_mut)?\(\)\.update\(\))\?;$"), r"\1let _ = \2;"),
    ("del-assign", re.compile(r"^(\s*)(self\.[\w\.]+(\[[^\]]*\])?) (=|\+=|-=|\*=|/=) [^;]*;$"), r"\1let _ = &\2;"),
    ("del-call", re.compile(r"^(\s*)(self\.[\w\.]+)\.(clear|push_back|pop_front|reset|push)\((.*)\);$"), r"\1let _ = &\2;"),
    ("del-reset", re.compile(r"^(\s*)self\.reset\(\);$"), r"\1"),
    ("time->other", re.compile(r"\bself\.time\b(?! =)"), "other.time"),
    (">=time->>", re.compile(r"\.time >= "), ".time > "),
]


def code_lines(path):
    """(index, line) for lines that may be mutated: outside test modules, not declarations."""
    src = open(os.path.join(REPO, path)).read().split("\n")
    out = []
    in_test = False
    depth_at_test = None
    depth = 0
    block_comment = False
    for i, line in enumerate(src):
        s = line.strip()
        if "#[cfg(test)]" in s:
            in_test = True
            depth_at_test = depth
        opens = line.count("{")
        closes = line.count("}")
        if in_test:
            depth += opens - closes
            if depth <= depth_at_test and closes > 0 and depth_at_test is not None and "}" in s and opens == 0 and depth == depth_at_test:
                in_test = False
            continue
        depth += opens - closes
        if s.startswith("/*"):
            block_comment = True
        if block_comment:
            if "*/" in s:
                block_comment = False
            continue
        if not s or SKIP_LINE.match(line) or "assert" in s or s.startswith("///") or s.startswith("//"):
            continue
        if "unimplemented!" in s or "unreachable!" in s or "panic!" in s or "expect(" in s:
            continue
        out.append((i, line))
    return src, out


def enumerate_mutants(files, only_op=None):
    muts = []
    for path in files:
        src, lines = code_lines(path)
        for i, line in lines:
            code = line.split("//")[0] if "//" in line and "://" not in line else line
            for name, rx, rep in OPS:
                if only_op and name != only_op:
                    continue
                for k, m in enumerate(rx.finditer(code)):
                    new = code[: m.start()] + m.expand(rep) + code[m.end():]
                    if new == code:
                        continue
                    muts.append(dict(id="%s:%d:%s:%d" % (path, i + 1, name, k), path=path, line=i, op=name, old=line, new=new))
    return muts


def sh(cmd, cwd=None, timeout=900, env=None):
    import signal
    p = subprocess.Popen(cmd, cwd=cwd, shell=True, stdout=subprocess.PIPE, stderr=subprocess.STDOUT, text=True, env=env, start_new_session=True)
    try:
        out, _ = p.communicate(timeout=timeout)
        return p.returncode, out
    except subprocess.TimeoutExpired:
        try:
            os.killpg(p.pid, signal.SIGKILL)
        except ProcessLookupError:
            pass
        out, _ = p.communicate()
        return 124, out or ""


class Worker:
    def __init__(self, k, cores):
        self.k = k
        self.cores = cores
        self.root = os.path.join(SCRATCH, "w%d" % k)
        self.repo = os.path.join(self.root, "repo")
        self.sim = os.path.join(self.root, "sim")
        shutil.rmtree(self.root, ignore_errors=True)
        os.makedirs(self.root)
        sh("git -C %s worktree prune; git -C %s worktree add -q --detach %s HEAD" % (REPO, REPO, self.repo))
        os.makedirs(self.sim)
        shutil.copytree(os.path.join(V, "sim", "src"), os.path.join(self.sim, "src"))
        shutil.copy(os.path.join(V, "sim", "Cargo.lock"), self.sim)
        toml = open(os.path.join(V, "sim", "Cargo.toml")).read().replace('path = "/repo"', 'path = "%s"' % self.repo)
        toml = toml.replace("opt-level = 2", "opt-level = 1").replace("debug = 1", "debug = 0")
        open(os.path.join(self.sim, "Cargo.toml"), "w").write(toml)
        os.makedirs(os.path.join(self.sim, ".cargo"))
        cfg = open(os.path.join(V, "sim", ".cargo", "config.toml")).read().replace("/verif/target/main", os.path.join(self.root, "target"))
        cfg += "\njobs = %d\n" % cores if "[build]" not in cfg else ""
        cfg = cfg.replace("[build]\n", "[build]\njobs = %d\n" % cores)
        open(os.path.join(self.sim, ".cargo", "config.toml"), "w").write(cfg)
        self.bin = os.path.join(self.root, "target", "release", "rrtk-sim")

    def build(self):
        return sh("cargo build --release 2>&1 | tail -30", cwd=self.sim, timeout=1800)

    def binary_ok(self):
        return os.path.exists(self.bin)

    def run_mutant(self, m, props_override=None, runs_scale=1.0):
        path = os.path.join(self.repo, m["path"])
        orig = open(path).read()
        lines = orig.split("\n")
        assert lines[m["line"]] == m["old"], "source moved"
        lines[m["line"]] = m["new"]
        res = dict(id=m["id"], op=m["op"], old=m["old"].strip(), new=m["new"].strip())
        try:
            open(path, "w").write("\n".join(lines))
            t0 = time.time()
            mt = os.path.getmtime(self.bin) if os.path.exists(self.bin) else 0
            rc, out = sh("cargo build --release 2>&1 | grep -E '^(error|warning: unused)' -A 6 | head -30", cwd=self.sim, timeout=1800)
            built = os.path.exists(self.bin) and os.path.getmtime(self.bin) > mt
            res["build_s"] = round(time.time() - t0, 1)
            if not built:
                res["status"] = "nocompile" if "error" in out else "unchanged_binary"
                res["detail"] = out[:300]
                return res
            props = props_override or FILE_PROPS.get(m["path"], ALL)
            res["status"] = "survived"
            res["ran"] = []
            for p in props:
                t1 = time.time()
                rc, out = sh("%s batch --prop %s --seed 1 --workers %d 2>/dev/null | tail -1" % (self.bin, p, self.cores), timeout=600)
                res["ran"].append(p)
                if rc == 124:
                    res.update(status="killed", by=p, signature="hang (batch did not finish in 600 s)")
                    break
                try:
                    d = json.loads(out.strip().split("\n")[-1])
                except Exception:
                    res.update(status="killed", by=p, signature="simulator died: " + out[-200:])
                    break
                if d.get("failing_runs", 0) > 0:
                    f = d.get("failures", [{}])
                    res.update(status="killed", by=p, signature=(f[0].get("signature") if f else "?"), failing_runs=d["failing_runs"])
                    break
            res["check_s"] = round(time.time() - t0, 1)
            return res
        finally:
            open(path, "w").write(orig)

    def suite(self, m):
        """the repository's own tests against a surviving mutant"""
        path = os.path.join(self.repo, m["path"])
        orig = open(path).read()
        lines = orig.split("\n")
        lines[m["line"]] = m["new"]
        try:
            open(path, "w").write("\n".join(lines))
            env = dict(os.environ, CARGO_TARGET_DIR=os.path.join(self.root, "suite-target"), CARGO_NET_OFFLINE="true")
            rc1, o1 = sh("cargo test --workspace --no-fail-fast --offline -j %d 2>&1 | grep -E '^test result|FAILED|error' | head -20" % self.cores, cwd=self.repo, env=env, timeout=1800)
            rc2, o2 = sh("cargo test --features devices --no-fail-fast --offline -j %d 2>&1 | grep -E '^test result|FAILED|error' | head -20" % self.cores, cwd=self.repo, env=env, timeout=1800)
            o = o1 + o2
            return ("FAILED" not in o and "error:" not in o and "error[" not in o and "test result" in o)
        finally:
            open(path, "w").write(orig)

    def close(self):
        sh("git -C %s worktree remove --force %s" % (REPO, self.repo))
        shutil.rmtree(self.root, ignore_errors=True)


def main():
    ap = argparse.ArgumentParser()
    ap.add_argument("--workers", type=int, default=6)
    ap.add_argument("--cores", type=int, default=2)
    ap.add_argument("--files", default=",".join(FILE_PROPS.keys()))
    ap.add_argument("--limit", type=int, default=0)
    ap.add_argument("--stride", type=int, default=1, help="take every n-th mutant")
    ap.add_argument("--offset", type=int, default=0)
    ap.add_argument("--only-op", default=None)
    ap.add_argument("--out", default=os.path.join(V, "automut", "results.jsonl"))
    ap.add_argument("--resume", action="store_true")
    ap.add_argument("--list", action="store_true")
    ap.add_argument("--no-suite", action="store_true")
    ap.add_argument("--props", default=None, help="comma-separated property list to run instead of the per-file table")
    ap.add_argument("--retest", default=None, help="results file: re-run its survivors against ALL simulator properties")
    a = ap.parse_args()
    muts = enumerate_mutants(a.files.split(","), a.only_op)
    muts = muts[a.offset :: a.stride]
    if a.limit:
        muts = muts[: a.limit]
    if a.retest:
        keep = set(json.loads(l)["id"] for l in open(a.retest) if json.loads(l)["status"] == "survived")
        muts = [m for m in muts if m["id"] in keep]
    if a.list:
        for m in muts:
            print(m["id"], "|", m["old"].strip(), "=>", m["new"].strip())
        print(len(muts), "mutants")
        return
    os.makedirs(os.path.dirname(a.out), exist_ok=True)
    done = set()
    if a.resume and os.path.exists(a.out):
        for l in open(a.out):
            done.add(json.loads(l)["id"])
    muts = [m for m in muts if m["id"] not in done]
    print("%d mutants to run" % len(muts), flush=True)
    q = queue.Queue()
    for m in muts:
        q.put(m)
    lock = threading.Lock()
    outf = open(a.out, "a")
    counts = {}

    def work(k):
        w = Worker(k, a.cores)
        rc, out = w.build()
        if not w.binary_ok():
            print("worker %d: baseline build failed\n%s" % (k, out), flush=True)
            w.close()
            return
        try:
            while True:
                try:
                    m = q.get_nowait()
                except queue.Empty:
                    break
                try:
                    r = w.run_mutant(m, props_override=a.props.split(",") if a.props else (ALL if a.retest else None))
                    if r["status"] == "survived" and not a.no_suite:
                        r["suite_passes"] = w.suite(m)
                except Exception as e:
                    r = dict(id=m["id"], status="harness_error", detail=repr(e))
                with lock:
                    outf.write(json.dumps(r) + "\n")
                    outf.flush()
                    counts[r["status"]] = counts.get(r["status"], 0) + 1
                    n = sum(counts.values())
                    if r["status"] == "survived" or n % 25 == 0:
                        print("[%d/%d] %s %s %s" % (n, len(muts), r["status"], r["id"], r.get("new", "")[:90]), flush=True)
        finally:
            w.close()

    ts = [threading.Thread(target=work, args=(k,)) for k in range(a.workers)]
    for t in ts:
        t.start()
    for t in ts:
        t.join()
    print("done", counts, flush=True)


if __name__ == "__main__":
    main()
