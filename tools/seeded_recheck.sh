#!/bin/bash
# Re-evaluates stored seeded changes against the current checks: tools/seeded_recheck.sh NAME PROP [MORE PROPS...]
name=$1; shift
d=/verif/seeded/$name
wt=/tmp/wt/recheck-$$
git -C /repo worktree add -q --detach $wt HEAD
(cd $wt && git apply $d/patch.diff && cp $d/patch.diff . && mkdir -p tests && cp $d/seeded_demo.rs tests/ && (cp -r $d/seeded_demo_caller tests/ 2>/dev/null || true) && cp $d/NOTES.author.md NOTES.md 2>/dev/null)
cmd=$(python3 -c "import json;print(json.load(open('$d/meta.json')).get('demo_cmd',''))")
SEEDED_DEMO_CMD="$cmd" python3 /verif/tools/seeded_eval.py $wt $name "$@"
git -C /repo worktree remove --force $wt
