#!/usr/bin/env python3
"""Determinism proof: every batch is executed twice in separate processes, once with 1 worker and
once with 16, and the order-independent trace digests, counters and failure lists are diffed."""
import json, subprocess, sys, os
BIN = "/verif/target/main/release/rrtk-sim"
props = ["C02", "C03", "C04", "C05", "C08", "C09", "C10", "C11", "C12", "C13", "C15", "C16", "C17", "C19", "C20"]
seeds = [int(x) for x in (sys.argv[1:] or ["1", "2", "3", "4", "5", "6", "7", "8"])]
runs = os.environ.get("DET_RUNS", "2000")
bad = 0
n = 0
for p in props:
    for s in seeds:
        outs = []
        for w in ("1", "16", "5"):
            out = "/tmp/det-%s-%s-%s.json" % (p, s, w)
            subprocess.run([BIN, "batch", "--prop", p, "--seed", str(s), "--runs", runs, "--workers", w, "--out", out, "--replay-dir", "/tmp/det-rp"],
                           stdout=subprocess.DEVNULL, stderr=subprocess.DEVNULL)
            d = json.load(open(out))
            outs.append({k: d[k] for k in ("trace_xor", "trace_sum", "distinct_nontrivial", "faults_fired", "reach_probes", "counts", "failing_runs", "cells_by_space", "sim_seconds")})
        n += 1
        if not (outs[0] == outs[1] == outs[2]):
            bad += 1
            print("NONDETERMINISTIC", p, s, outs)
print("determinism: %d (property, seed) batches x 3 worker counts, %d divergences" % (n, bad))
sys.exit(1 if bad else 0)
