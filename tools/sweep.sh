#!/bin/bash
# Background zero-alarm sweep with frozen binaries (/root/sweepbin): many seeds, thorough-sized batches.
# Usage: sweep.sh FIRST_SEED LAST_SEED [RUNS]
BIN=/root/sweepbin/rrtk-sim
out=/root/sweep-out; mkdir -p $out
for seed in $(seq $1 $2); do
  for p in C02 C03 C04 C05 C08 C09 C10 C11 C12 C13 C15 C16 C17 C20; do
    $BIN batch --prop $p --tier thorough --seed $seed ${3:+--runs $3} --workers 8 --out $out/$p-$seed.json --replay-dir $out/replays-$p-$seed >/dev/null 2>&1
    rc=$?
    if [ -x /root/sweepbin/rrtk-sim-shipped ] && [ $((seed % 2)) -eq 0 ]; then
      /root/sweepbin/rrtk-sim-shipped batch --prop $p --tier thorough --seed $seed --runs 200000 --workers 8 --out $out/$p-$seed-shipped.json --replay-dir $out/replays-$p-$seed-shipped >/dev/null 2>&1
      echo "seed=$seed prop=$p shipped rc=$? $(python3 -c "
import json
d=json.load(open('$out/$p-$seed-shipped.json'))
print('runs',d['runs'],'failing',d['failing_runs'],[f['signature'] for f in d['failures']])" 2>/dev/null)"
    fi
    echo "seed=$seed prop=$p rc=$rc $(python3 -c "
import json
d=json.load(open('$out/$p-$seed.json'))
print('runs',d['runs'],'failing',d['failing_runs'],'wall',d['wall_s'],[f['signature'] for f in d['failures']])" 2>/dev/null)"
  done
  /root/sweepbin/rrtk-shuttle run --seed $seed --iters 3000 --shapes 48 --out $out/shuttle-$seed.json --dir $out/shuttle-$seed >/dev/null 2>&1
  echo "seed=$seed shuttle rc=$? $(python3 -c "
import json
d=json.load(open('$out/shuttle-$seed.json'));print(d['executions'],d['distinct_interleavings'],len(d['failures']))")"
done
