#!/usr/bin/env python3
"""Regenerates /verif/MANIFEST.json from the table below (keeps it valid at all times)."""
import json, os
V = os.path.dirname(os.path.dirname(os.path.abspath(__file__)))

CLAIMED = {
 "C02": ("seeded fault injection at the leaf getters and clocks of real combinator DAGs (Err/absent/present x timestamp order x expiry boundary) vs a table-driven outcome model; Sum2~SumStream, Product2~ProductStream and De Morgan twins", "5 C02"),
 "C03": ("timestamps monitored on every datum leaving a stream / terminal / device under skewed, equal and extreme stamps; Datum operator impls and replace helpers through harness operator nodes (seeded sampling only, flagged)", "5 C03"),
 "C04": ("seeded fault-injecting simulation of input histories vs executable textbook-PID model + time-shift / 2^k-scaling twins", "5 C04"),
 "C05": ("seeded fault-injecting simulation of input histories: stale-error monitor, restart-as-oracle at reset events, absent-deletion and read-independence twins, bounded recovery", "5 C05"),
 "C10": ("seeded fault-injecting simulation of sample histories vs trapezoid/difference reference models with forward error bound, time-shift twin, mis-dimensioned sample faults", "5 C10"),
 "C11": ("seeded simulation of sample/command/follow histories vs staged CommandPID reference model; set-same twin", "5 C11"),
 "C12": ("seeded simulation of irregular/duplicate-timestamp histories: formula model, convexity invariant, f32/Quantity variant twin, no-panic; one defect (window starting before i64::MIN) recorded as KNOWN-FINDING", "5 C12"),
 "C08": ("seeded simulation of device graphs (set/update schedules, presence patterns, relinking) with a per-update least-squares projection oracle from the values read at the terminals", "5 C08"),
 "C09": ("seeded connect/re-pair/disconnect (partition/heal) sequences on free terminals against a symmetric-matching reference model; panics are crashes", "5 C09"),
 "C13": ("seeded simulation of device chains under arbitrary update schedules and skewed issuer clocks: newest-command-wins per update + bounded-progress check over the recorded schedule", "5 C13"),
 "C20": ("seeded simulation of wrappers with inner-getter faults and inner-settable rejections; PID wrapper against a separately driven CommandPID twin", "5 C20"),
 "C15": ("seeded op histories over settables / followers / history adapters with rejected sets, erroring followed getters, clock jumps (both directions) and clock errors, against a small reference model", "5 C15"),
 "C17": ("(a) seeded clone/drop/to_dyn!/borrow histories over all six variants with a drop tracker, from crates with and without alloc/std features, from a #![no_std] crate, and against rrtk built without std; (b) shuttle-controlled thread schedules (seeded random + PCT) over Arc<Mutex>/Arc<RwLock> References: conservation + register linearizability, replayable schedule files", "5 C17"),
 "C16": ("scratch-slot clause: seeded/enumerated arity x absent-pattern plans run natively with poisoned scratch memory (hook) and interpreted by Miri; dangling clause: device-crash fault (drop / move with a live terminal link) in forbid(unsafe_code) programs under Miri; 11 unsound accessors recorded as KNOWN-FINDING; plus negative compile probes (programs without unsafe that must be rejected by the compiler)", "5 C16"),
 "C19": ("differential replay across builds: the same seeded plans (all worlds + value-level API programs; well- and ill-dimensioned) executed by simulators linked against rrtk in twelve build configurations ({std, alloc+libm, alloc+micromath} x {dim_check_release, none}; the default features without / with debug assertions; std together with micromath / with libm; libm together with micromath; std + dim_check_release without debug assertions), canonical traces diffed", "5 C19"),
}
NOT_APPLICABLE = {
 "C01": "pure function of (unit, unit, operator): no state, seam, clock, fault or order for a simulator to control; deterministic simulation with fault injection does not apply (DESIGN.md section 0)",
 "C06": "relation between six accessors of an immutable MotionProfile at one argument t; t is an argument, not a clock the object reads - input generation, not simulation (DESIGN.md section 0)",
 "C07": "closed-form trajectory analysis over (profile, t): pure numeric function of its inputs (DESIGN.md section 0)",
 "C14": "State::update(dt), setters, conversions and arithmetic are pure functions of their arguments (DESIGN.md section 0)",
 "C18": "integer and conversion arithmetic on Time/DimensionlessInteger/Quantity: pure functions (DESIGN.md section 0)",
}
PENDING = {}
for line in open(os.path.join(V, "properties.jsonl")):
    pid = json.loads(line)["id"]
    if pid not in CLAIMED and pid not in NOT_APPLICABLE:
        PENDING[pid] = "check under construction in this session; not claimed until it runs clean (see DESIGN.md section 5 for the plan)"

checks = []
for pid, (tech, ref) in sorted(CLAIMED.items()):
    checks.append({
        "property_id": pid,
        "quick_cmd": "python3 check.py %s --tier quick" % pid,
        "thorough_cmd": "python3 check.py %s --tier thorough" % pid,
        "evidence_file": "/verif/evidence/%s.json" % pid,
        "replay_cmd_template": "python3 check.py %s --replay {path}" % pid,
        "engine": "rrtk-sim",
        "level_claimed": {
            "category": "exploration",
            "text": "Seeded search over simulated histories / schedules / fault sequences executed on the real rrtk objects, judged per step by an executable reference model and over the recorded history by twins and restarts; a clean batch is evidence over the sampled space, not proof.",
            "design_ref": "DESIGN.md section " + ref,
        },
        "level_note": "trusted: the reference models in /verif/sim/src, the error-bound derivation (DESIGN 2.4), rustc/std f32 semantics; sampled, not exhaustive",
        "technique": tech,
    })
m = {
 "version": 1,
 "setup_cmd": "bash /verif/tools/setup.sh",
 "hooks": {
   "guard": "--cfg rrtk_verif (scratch-slot poisoning) and --cfg rrtk_verif_shuttle (shuttle sync seam)",
   "enable": "rustflags in /verif/sim/.cargo/config.toml (--cfg rrtk_verif, rrtk as path dependency of the simulator) and /verif/shuttle/.cargo/config.toml (--cfg rrtk_verif_shuttle, rrtk through the shadow manifest /verif/shuttle/rrtk-shadow whose lib path is /repo/src/lib.rs)",
   "baseline_off_cmd": "cd /repo && cargo test --workspace --no-fail-fast --offline",
   "source_commits": ["9b8f260 (--cfg rrtk_verif: poison MaybeUninit scratch arrays; add-only)", "f78b7c1 (--cfg rrtk_verif_shuttle: Arc/Mutex/RwLock and guards from shuttle::sync; widens 4 existing cfg attributes with not(rrtk_verif_shuttle), otherwise add-only)"],
   "add_only": False,
 },
 "engines": [
   {"name": "rrtk-sim", "path": "/verif/sim", "serves_properties": sorted(CLAIMED), "kind_free_text": "plan/execute deterministic simulator with seeded fault injection, reference-model and twin/restart oracles, ddmin minimisation, replay files"},
   {"name": "rrtk-miri", "path": "/verif/miri", "serves_properties": ["C16"], "kind_free_text": "forbid(unsafe_code) programs (scratch-slot sweep, device-crash shapes) interpreted by Miri, one process per shape"},
   {"name": "rrtk-shuttle", "path": "/verif/shuttle", "serves_properties": ["C17"], "kind_free_text": "shuttle (controlled scheduler: seeded random + PCT) scenarios over Reference with persisted, replayable schedules"},
 ],
 "checks": checks,
 "not_applicable": [{"property_id": k, "reason": v} for k, v in sorted({**NOT_APPLICABLE, **PENDING}.items())],
 "notes": "Driver: /verif/check.py. Known findings / fixed defects: /verif/known_findings.jsonl. Replay files of unlisted violations: /verif/replays/<id>/.",
}
json.dump(m, open(os.path.join(V, "MANIFEST.json"), "w"), indent=1)
print("claimed", sorted(CLAIMED), "pending", sorted(PENDING))
