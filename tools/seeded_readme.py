#!/usr/bin/env python3
"""Regenerates /verif/seeded/README.md from the meta.json files."""
import json, glob
NOTES = {
 'C02-difference-error-order': 'both operands of DifferenceStream erroring with *different* errors',
 'C02-n2v-eager-clock': 'NoneToValue with a present input while its clock fails (eager `unwrap_or`)',
 'C03-command-divassign-stamp': '`Datum<Command> /= Datum<f32>` with a strictly newer right-hand stamp',
 'C04-dt-from-absolute-seconds': 'timestamps large relative to the sampling interval (dt from f32 seconds of absolute times)',
 'C04-err-reset-keeps-prev-error': 'sample, error, sample with ki or kd non-zero (error reset differs from absent reset)',
 'C05-ma-lazy-clear': 'sample, error, absent, sample within one window (two cooperating sites)',
 'C05-derivative-stale-error-again': 'error followed directly by a present sample (D2 re-introduced by an independent author)',
 'C08-geartrain-stamp': 'both sides present and side 2 strictly newer',
 'C08-axle-divisor-last-index': 'informed axle terminals are not a prefix 0..k on the first update',
 'C09-cross-connect': 'two disjoint links, then a connect across them (4 terminals, 3 operations)',
 'C09-mean-keeps-own-stamp': 'both linked terminals hold states and the partner\'s is strictly newer',
 'C10-p2s-error-keeps-state': 'PositionToState: an input error after >= 1 sample, observed within the next two samples',
 'C10-derivative-dt-absolute-seconds': 'DerivativeStream with timestamps large relative to the interval',
 'C11-set-vs-last-request': 'first ever set() equals the constructor command, after >= 1 processed sample',
 'C11-gains-looked-up-before-follow': 'followed command changes *kind*, gains differ between kinds, sample present on that update',
 'C12-maq-single-trim': 'Quantity moving average: two or more samples leave the window in one update',
 'C12-maf-clear-moved-to-absent': 'f32 moving average: error followed directly by a sample inside the window',
 'C13-command-div-acceleration': 'acceleration command relayed from side 2 of a gear train with ratio^2 != 1',
 'C13-geartrain-skip-if-own-slots-agree': 'a command set directly on a gear-train terminal, then a newer one arriving only through a connection',
 'C15-follow-err-unfollows': 'an update that returns Err while following, then a later present value',
 'C15-set-delta-adds': 'set_delta while the stored offset is non-zero (after set_time, a second set_delta, or a non-zero constructor offset)',
 'C16-product-unrolled-block-guard': 'ProductStream arity >= 5 with 1..4 inputs present: unwritten slots multiplied in',
 'C17-arcrwlock-try-write': 'ArcRwLock borrow_mut while another thread holds any borrow (contention only)',
 'C19-set-velocity-eq-assume-false': 'State::set_constant_velocity in builds with dimension checking compiled out',
 'C20-actuator-skip-if-not-newer': 'second ActuatorWrapper update whose combined data changed without a strictly later stamp',
 'C20-pid-clock-only-with-state': 'PIDWrapper whose terminal has carried commands but never a state, same command repeated with later stamps',
 'C05-freeze-input-error-while-frozen': 'freeze: condition true while the input errs (the frozen value is overwritten by the error)',
 'C13-axle-scan-stops-at-empty': 'axle whose newest command sits behind a terminal that has no command at all',
 'C02-latest-stops-at-error': 'newest-of with an errored input in front of the input that should win (`map_while` for `filter_map`)',
 'C17-arcmutex-clone-bitwise': 'ArcMutex Reference cloned (bitwise copy, no refcount) and one alias dropped while another lives',
 'C12-ewmaq-absent-clears-update-time': 'Quantity EWMA: sample, absent, sample -> `expect` panic',
 'C08-differential-sum-mode-waits-for-sum': 'sum-distrust differential with both sides known and no sum reading at all',
 'C19-nostd-time-div-shift': 'no_std builds only: negative Time / power-of-two DimensionlessInteger rounds down instead of toward zero',
 'C16-axle-get-terminal-off-by-one': '`Axle<N>::get_terminal(N)` returns a reference one past the terminal array instead of panicking',
 'C03-latest-all-at-i64-min': 'newest-of whose present candidates are ALL stamped exactly i64::MIN (sentinel instead of Option)',
 'C08-axle-seed-time-default': 'axle whose newest contributing read is stamped before Time(0) (seed of the max is Time::default())',
 'C09-equal-states-keep-own-stamp': 'both linked terminals hold bit-equal states (also +0.0 / -0.0) and the partner\'s stamp is newer',
 'C10-derivative-plateau-unit': 'DerivativeStream over Quantity: two consecutive equal values (plateau) return the input unit, not unit/s',
 'C11-drops-samples-closer-than-epsilon': 'CommandPID: a sample less than f32::EPSILON seconds (120 ns) after the previous one is silently dropped',
 'C13-axle-skips-identical-value': 'axle: a newer command whose value equals the one already relayed keeps the old stamp',
 'C15-follow-get-or-insert': 'follow() while a followed getter is already installed keeps the old one (`get_or_insert`)',
 'C20-encoder-swallows-fromnone': 'GetterStateDeviceWrapper: inner getter returns `Error::FromNone` specifically (treated as absent)',
 'C02-expirer-deadline-overflow': 'Expirer with a huge ("never expires") limit: `stamp + limit` overflows although `now - stamp` does not',
 'C04-derivative-one-ulp-deadband': 'PID: consecutive errors that are neighbouring floats (1-2 ulps apart) with kd != 0 and a short interval',
 'C05-ewma-tie-across-error': 'EWMA: the first sample after an error carries the same timestamp as the last sample before it',
 'C09-command-write-dropped-if-partner-newer': 'command written to a connected terminal whose partner holds a strictly newer one, then a link change or an older partner write',
 'C12-ewma-smoothing-one-shortcut': 'EWMA with smoothing constant exactly 1.0 and a repeated timestamp (0^0)',
 'C16-to-dyn-arc-variants-dangle': '`to_dyn!` on an Arc-backed Reference (previously refused) returns a handle that does not keep the target alive',
 'C17-arcmutex-sole-owner-fast-path': 'ArcMutex borrow_mut skips the lock when it is the sole strong owner; another thread upgrades a Weak meanwhile',
 'C03-exponent-square-fast-path-stamp': 'ExponentStream with exponent exactly 2.0 stamped newer than the base (fast path `base * base` keeps the base stamp)',
 'C05-freeze-ignores-earlier-stamped-input': 'FreezeStream, condition false, holding a present datum, input returns a datum stamped strictly EARLIER',
 'C08-geartrain-meshing-fast-path-skips-acceleration': 'gear train with both sides informed whose position and velocity already mesh bit-for-bit while the accelerations do not',
 'C10-integral-halves-integer-interval': 'IntegralStream: an ODD number of nanoseconds between two samples (interval halved as an integer), visible for short intervals',
 'C11-set-epsilon-tolerance-on-command': 'CommandPID.set with the same kind and a value less than f32::EPSILON away from the current one (only possible below magnitude 1)',
 'C13-geartrain-early-return-skips-relay': 'gear train updated while only side 2 has a STATE: the command relay below the early return is skipped for that update',
 'C15-follow-writeback-overwrites-reentrant-change': 'a settable whose impl_set itself calls stop_following / follow(other) during a forwarded update',
 'C20-pid-wrapper-resets-when-terminal-sees-nothing': 'PID wrapper whose terminal sees nothing AFTER having seen data (link cut mid-run), then more updates or a reconnect',
 'C02-sum2-holds-first-borrow-while-reading-second': 'Sum2 whose first input is absent and whose two inputs share one Mutex-backed Reference (guard of input 1 still held while input 2 is read): never returns',
 'C04-dt-via-f64-absolute-timestamps': 'PID with absolute timestamps beyond 2^53 ns (e.g. nanoseconds since the Unix epoch): dt from a difference of f64-rounded stamps',
 'C08-geartrain-update-terminals-pulls-side1-twice': 'gear train whose side-2 terminal gets its states by FOLLOWING a getter (pulled in update_terminals) rather than by set',
 'C09-mean-halve-before-add-subnormal': 'terminal mean computed as a/2 + b/2: differs from (a+b)/2 only for odd subnormal components (one subnormal step)',
 'C12-moving-average-128-sample-cap': 'moving average with more than 128 samples inside the window (queue capped)',
 'C16-rc-borrow-unguarded': 'Rc variant: borrow() no longer registers with the RefCell, so a borrow_mut() is granted while a shared borrow is alive (reader first, writer second)',
 'C17-ptrmutex-try-lock': 'PtrMutex variant (static_mutex_reference!): try_lock instead of lock, panics under contention between threads',
 'C19-nostd-abs-positive-zero': 'builds without std: Quantity::abs(+0.0) returns -0.0 (visible through a reciprocal); rebased onto the tree with fix D5, which it led to',
 'C03-axle-skips-terminals-holding-same-command-value': 'axle: a terminal that already holds the same command VALUE is not rewritten, so it keeps the older stamp',
 'C05-pid-p-only-skips-reset': 'PID stream with ki == 0 and kd == 0: reset() returns early, so the cached output / error survives an absent input',
 'C09-command-read-borrows-partner-mutably': 'command (and combined) read of a connected terminal takes borrow_mut() of the partner: panics when a shared borrow of the partner is alive',
 'C10-derivative-interval-cache-u32-key': 'DerivativeStream caches seconds-per-interval keyed by `interval as u32`: two different consecutive intervals congruent mod 2^32 ns',
 'C11-set-during-error-skips-reset': 'CommandPID.set(different command) while an input error is held: the reset is skipped and get() keeps the stale error',
 'C13-geartrain-drops-commands-that-overflow': 'gear train does not relay a command whose scaled value overflows f32 (|v| above ~3e36): the far side keeps the old command',
 'C15-follow-holds-getter-borrow-across-set': 'update_following_data keeps its borrow of the followed getter while it calls set: an impl_set that mutably borrows that getter panics',
 'C20-pid-wrapper-clock-never-runs-backwards': 'PID wrapper clamps its clock to the last output time: a state stamped earlier than the previous update (late sample, or first state older than an opening command)',
 'C02-and-short-circuits-on-false-first-input': 'AndStream returns early when its first input is false: a second input that errs (or is newer) is ignored',
 'C04-integral-halves-integer-interval': 'PID integral halves the interval as an integer: odd nanosecond intervals, short enough to matter, ki != 0',
 'C08-equal-trust-differential-guesses-missing-sum': 'equal-trust differential with both sides known and no sum reading writes side1 + side2 into its sum terminal instead of waiting',
 'C12-ewmaq-equal-sample-keeps-update-time': 'Quantity EWMA: a sample equal to the current average is passed through without advancing the update time; the next different sample uses a stale dt',
 'C16-reference-unsafe-impl-send-sync': '`unsafe impl Send + Sync for ReferenceUnsafe`: an Rc-backed (or bare-pointer) Reference may now cross threads in safe code',
 'C17-to-dyn-names-std-in-callers-crate': '`to_dyn!` expands to `std::rc::Rc<std::cell::RefCell<..>>`: does not compile in a #![no_std] calling crate while rrtk itself has std',
 'C19-state-update-empty-in-default-release-build': 'State::update compiled to nothing when dim_check_debug is on, dim_check_release off and debug assertions off (default features, --release)',
 'C20-terminaldata-stamp-newer-of-state-and-command': 'combined TerminalData read stamped with the newer of state and command (instead of the state\'s stamp): a command newer than the state',
 'C03-replace-option-form-replaces-on-tie': '`replace_if_none_or_older_than_option` replaces (and reports true) when slot and candidate carry EQUAL timestamps',
 'C05-maq-second-error-keeps-first': 'Quantity moving average: a second, different error directly after a first one is not stored (get() keeps the first)',
 'C09-reconnect-same-pair-unlinks': 'connect(a, b) when a and b are already linked to each other leaves both unlinked (new links written first, then the "previous partners" cleared)',
 'C10-integral-first-sample-after-error-keeps-error': 'IntegralStream: the first present sample after an input error leaves the cached error in place (defect D2 re-introduced by an independent author)',
 'C11-absent-during-warmup-skips-reset': 'CommandPID: an absent input during the warm-up of a velocity / acceleration command (get() is already None) does not reset the staged samples',
 'C13-geartrain-tie-relays-side2-back': 'gear train, both sides holding the same command (equal stamps): side 2 is relayed back over side 1; visible when v * ratio overflows (rebased onto the tree with fix D6, which it led to)',
 'C15-history-getter-zero-offset-not-restamped': 'GetterFromHistory with offset exactly 0 returns the history\'s datum without restamping it with now',
 'C17-to-dyn-ptrrwlock-arm-gated-on-callers-std-feature': '`#[cfg(feature = "std")]` on the PtrRwLock arm inside the macro body is evaluated in the CALLER: a std-using crate without a feature named std hits unimplemented!()',
 'C02-quotient-stamp-is-divisors': 'QuotientStream stamps its output with the divisor\'s time (`divisor.time.max(divisor.time)`): dividend strictly newer than the divisor',
 'C04-dt-as-u32-nanoseconds': 'PID interval narrowed to u32 nanoseconds: any interval of 2^32 ns (4.29 s) or more wraps',
 'C05-a2s-fromnone-does-not-reset': 'AccelerationToState treats an input `Error::FromNone` like an absent sample (returns it, keeps its state)',
 'C08-axle-single-informed-terminal-not-propagated': 'axle with exactly one informed terminal: `count > 1` guards the write-back loop as well as the division',
 'C12-ewmaq-dt-from-f32-seconds-of-absolute-stamps': 'Quantity EWMA computes dt as a difference of f32 seconds of the two absolute stamps: stamps far from zero',
 'C16-sum-reads-slot0-when-all-absent': 'SumStream with every input absent evaluates `value[0].assume_init()` before discarding it (`then_some` is eager): only the interpreter on the build without the poisoning hook sees it',
 'C19-std-only-round-in-time-from-seconds': 'std builds round, no_std builds truncate in `Time::try_from(Quantity seconds)`: durations below 2^23 ns with a fractional nanosecond count',
 'C20-actuator-skips-inner-update-when-terminal-sees-nothing': 'actuator wrapper returns before `inner.update()` when its terminal sees nothing (leading rounds, cut link)',
 'C02-expirer-holds-input-borrow-while-reading-clock': 'Expirer keeps its borrow of the input while it reads the clock: never returns when the clock is a TimeGetterFromGetter over the same Mutex-backed sensor',
 'C05-f2q-drives-its-input-update': 'FloatToQuantity calls its input\'s own update() when the input is absent and returns early if that fails (stale value / stale error)',
 'C08-tooth-counts-truncated-to-integers': 'GearTrain::new truncates the first and last tooth entries to integers: lists whose first or last entry is not a whole number (12.5, 35.999996)',
 'C09-partner-nan-state-ignored': 'terminal state read skips a partner state that has a NaN component: the two ends of a link read different states',
 'C10-p2s-steady-state-fast-path-keeps-old-position': 'PositionToState: three consecutive exactly equal, non-zero difference quotients (constant-speed ramp): the fast path restamps the record but keeps the previous position',
 'C11-error-integral-clamped-at-1e30': 'CommandPID clamps its error integral at +-1e30 ("anti-windup"): values around 1e27 and more with tiny gains',
 'C13-command-div-subnormal-multiplies': '`Command / f32` treats every |v| < f32::MIN_POSITIVE as zero and multiplies: a subnormal command relayed from side 2 of a gear train is off by ratio^2',
 'C15-failed-set-restores-last-request-over-nested-set': 'Settable::set restores the previous last request when impl_set fails, erasing a successful NESTED set made from inside impl_set',
 'C03-equal-differential-consistent-readings-keep-own-stamps': 'equal-trust differential whose three readings already add up exactly writes each branch back with its OWN stamp instead of the newest of the three',
 'C04-on-target-fast-path-keeps-old-prev-time': 'PID: two or more consecutive samples exactly on the setpoint, then a departure: the fast path does not advance the stored previous time',
 'C05-ewma-drops-samples-older-than-high-water-mark': 'EWMA keeps its update time across resets as a high-water mark and drops samples stamped before it (stale error / value after a reset)',
 'C12-maf-trim-adds-window-to-stamp': 'f32 moving average trims with `oldest + window <= now`: overflows for stamps within one window of i64::MAX',
 'C16-to-dyn-wraps-caller-expression-in-unsafe': 'the to_dyn! helper macro puts the caller\'s expression inside its own `unsafe` block: a crate without `unsafe` can pass `Reference::from_ptr(p)` and mint a dangling Reference',
 'C17-arcrwlock-shared-borrow-queues-behind-write': 'ArcRwLock borrow() first takes and drops the WRITE lock: a thread that already holds a shared borrow of the target deadlocks on its second one',
 'C19-std-with-micromath-uses-micromath-powf': 'with std AND micromath enabled the power function is micromath\'s approximation instead of std\'s',
 'C20-encoder-skips-write-when-link-already-reads-it': 'encoder wrapper skips writing its reading when the LINK already reads that datum (peer holds the same state): its own slot stays empty',
 'C19-libm-powf-whole-exponent-squaring': 'no_std+libm only: powf with a whole-number exponent by repeated squaring (dozens of ulps for large |n|, 0 for subnormal results)',
 'C02-product2-multiplies-in-reverse-order': 'Product2 computes `second * first`: only a payload type whose multiplication does not commute (matrix, rotation) shows it; f32 / Quantity results are bit-identical',
 'C08-invert-set-inside-debug-assert': 'Invert writes side 1 from inside a `debug_assert!`: the write disappears in any build without debug assertions (every default `--release` build); debug builds behave as before',
 'C09-disconnect-clears-own-link-before-partner-borrow': 'disconnect clears its own link before the (fallible) mutable borrow of the partner: a call refused because somebody is reading the partner leaves half a link behind',
 'C10-v2s-assert-not-ok-panics-in-unchecked-builds': 'VelocityToState checks its input unit with the assume-NOT-ok assertion: panics on well-formed input exactly in builds WITHOUT dimension checking (default `--release`)',
 'C11-restarts-after-a-day-without-samples': 'CommandPID restarts (forgets integral and previous error) when two consecutive samples are more than 24 h apart',
 'C13-disconnect-keeps-own-link': 'disconnect clears only the partner\'s back-link: the terminal it was called on keeps pointing at its ex-partner (one-way link; a later connect of that terminal silently unlinks a third party)',
 'C15-history-getter-reads-clock-twice': 'GetterFromHistory reads its clock twice per get (once for the lookup, once for the returned stamp): only a clock that advances between two reads within one call shows it',
 'C20-actuator-holds-terminal-borrow-during-inner-update': 'actuator wrapper keeps its shared borrow of the terminal alive across `inner.update()`: an inner object that reports back on that terminal from its update panics (already borrowed)',
 'C02-none-to-value-exclusive-clock-borrow': 'NoneToValue takes an EXCLUSIVE borrow of its clock when its input is absent: panics (RefCell) or never returns (RwLock) if the caller is itself reading that clock at the time',
 'C03-latest-compares-with-previous-candidate': 'newest-of compares each candidate with the PREVIOUS present one instead of the best so far: three or more present inputs stamped high, low, middle',
 'C04-negative-gain-terms-skipped': 'PID skips the integral / derivative term unless its gain is > 0: negative ki or kd (reverse-acting loops)',
 'C05-freeze-get-reads-live-when-unfrozen': 'FreezeStream::get reads condition and input live while the condition is false: a get between an input change and the next update sees the new value',
 'C12-maf-repeated-stamp-overwrites-newest': 'f32 moving average keeps one entry per timestamp and lets the LATER sample of a repeated stamp win',
 'C16-disconnect-skips-borrowed-partner': 'disconnect uses try_borrow_mut on the partner and silently skips it when it is borrowed: the partner keeps a link into a device that is then (legitimately) dropped',
 'C17-to-dyn-evaluates-argument-twice': 'to_dyn! expands its argument expression twice ("type assertion"): `pool.pop().unwrap()` converts a different Reference than the one popped first, `slot.take().unwrap()` panics',
 'C19-unchecked-quantity-eq-via-partial-ord': 'builds without dimension checking only: Quantity == is "neither < nor >", so NaN == anything',
 'C03-sum-pairwise-above-eight-drops-stamp': 'SumStream sums more than eight present addends pairwise and combines the halves by value only: the stamp of the upper half is dropped (needs N >= 9)',
 'C08-geartrain-meshing-fast-path-squares': 'GearTrain "already meshing" fast path compares SQUARES: for readings around 1e19 and more (squares overflow) or 1e-23 and less (squares underflow) inconsistent readings are kept as they are',
 'C09-state-read-debug-assert-borrows-own-cell': 'a debug_assert! in the two-state read borrows the reader\'s own RefCell through the partner\'s back-pointer: reading through one\'s own mutable guard (write, then read back) panics, debug builds only',
 'C10-integral-reads-input-twice': 'IntegralStream::update reads its input twice (error check, then value): an input that changes between the two reads yields an error that update() returns but get() does not show, and no reset',
 'C11-integral-held-one-ulp-from-command': 'CommandPID stops integrating while the error is below one f32 step of a NON-ZERO command on two consecutive samples (a quantised sensor one step off target is never corrected)',
 'C13-axle-skips-command-following-terminal': 'Axle skips terminals that FOLLOW a command getter when it relays: such a terminal keeps its older followed command (or none)',
 'C15-history-getter-holds-clock-borrow-across-history': 'GetterFromHistory::get keeps its borrow of the clock alive while it asks the history: a history that takes exclusive access to the shared clock panics',
 'C20-encoder-skips-reading-with-held-stamp': 'encoder wrapper skips a reading whose STAMP equals the one its terminal already holds, although the value differs (coarse encoder clock)',
 'C02-exponent-one-half-uses-sqrt': 'ExponentStream takes sqrt when the exponent is exactly 0.5: differs from the power function for a base of -0.0 (sign of zero) and -inf (NaN instead of +inf)',
 'C04-derivative-relative-noise-floor': 'PID derivative set to 0 when two consecutive errors differ by no more than EPSILON x |error| (neighbouring floats of an error of ordinary size)',
 'C05-pid-skips-non-finite-sample-keeps-error': 'PID skips a non-finite sample and keeps its last output - which may be an error: Err(e), then a NaN / inf sample, leaves get() returning Err(e)',
 'C12-ewma-zero-smoothing-passes-through': 'EWMA with smoothing exactly 0.0 uses weight 1 instead of 0 ("skip powf" fast path on the wrong end of the range)',
 'C16-safe-from-reference-unsafe': '`impl From<ReferenceUnsafe<T>> for Reference<T>`: the unsafe enum\'s variants are public, so safe code can now wrap a raw pointer to a local in a Reference',
 'C17-to-dyn-rc-unimplemented-in-alloc-only-build': 'rrtk built with alloc but without std: the two no_std copies of the to_dyn! helper "folded into one" that only knows the pointer variant - converting an Rc-backed Reference hits unimplemented!()',
 'C19-libm-with-micromath-uses-micromath-powf': 'no_std with libm AND micromath enabled: the power function is micromath\'s approximation instead of libm\'s',
 'C20-encoder-skips-equal-datum-signed-zero': 'encoder wrapper skips the write when the new datum == the held one: a reading that differs only in the sign of a zero is not relayed',
 'C03-latest-wrapping-comparison': 'the free function `latest()` orders stamps by the sign of a WRAPPING difference: picks the older datum when the two stamps are more than 2^63 ns apart',
 'C08-geartrain-fma-libm-arm-slip': 'gear-train projection through a new fused multiply-add helper whose libm-without-std arm adds the VELOCITY to the acceleration line (std and plain arms are right)',
 'C09-state-write-debug-assert-borrows-partner': 'a debug_assert! in the terminal\'s state write borrows the PARTNER: writing one end while the caller holds the other end\'s mutable guard panics (debug builds)',
 'C10-a2s-unit-check-in-debug-assert': 'AccelerationToState checks its input unit inside a debug_assert!: in a release build with dim_check_release (unit checking on, debug assertions off) wrong units are swallowed',
 'C11-non-finite-error-resets-controller': 'CommandPID resets itself when the error is not finite (overflowing difference, or a NaN / inf reading): a present sample yields no output and the warm-up starts over',
 'C13-axle-reads-own-slot-of-following-terminal': 'Axle takes the OWN slot instead of the command reading for terminals that follow a command getter: a newer command on that terminal\'s coupling is ignored',
 'C15-set-time-exclusive-clock-borrow': 'GetterFromHistory::set_time reads the clock through an exclusive borrow: panics if the caller still holds its own read-only view of the shared clock',
 'C02-expirer-clamps-negative-age': 'Expirer clamps a negative data age to zero ("no age yet"): wrong only for NEGATIVE expiry limits, where a datum stamped far enough ahead of the clock must pass',
 'C12-maf-evicts-by-age-difference': 'moving average evicts by `now - oldest >= window` instead of `oldest <= now - window`: two consecutive stamps more than i64::MAX ns apart overflow (panic / negative weights)',
 'C16-static-lock-macros-lazy-init-in-unsafe': 'static_rw_lock_reference! / static_mutex_reference! initialise lazily inside their own `unsafe` block: the caller\'s initial-value expression is compiled in an unsafe context',
 'C20-encoder-updates-terminal-after-writing': 'encoder wrapper refreshes its terminal AFTER writing the reading: if that terminal follows a state getter, the followed state overwrites the reading',
 'C04-pid-previous-sample-sentinel-at-i64-min': 'PID keeps "no previous sample" as a sentinel stamp i64::MIN instead of an Option: a sample stamped exactly i64::MIN followed by another one gets no integral / derivative',
 'C05-ewma-drops-samples-older-than-pre-error-time': 'EWMA keeps its update time across an error and drops samples stamped strictly earlier: Err(e), then an earlier-stamped sample, leaves get() returning Err(e)',
 'C17-reference-send-for-send-sync-payload': '`unsafe impl Send for Reference<T: Send + Sync>`: an Rc-backed (or bare-pointer) Reference can be moved to another thread in safe code; clones then race on the Rc counts',
}
HISTORY = {
 'C04-pid-previous-sample-sentinel-at-i64-min': 'MISSED at quick tier on arrival: node histories started no earlier than -2^60 and the shift twin stopped at i64::MIN + 1. Histories of the streams that do no `stamp - window` arithmetic may now '
   'start at exactly i64::MIN, and the shift twin may land the first stamp there. Caught at quick tier since (`C04|time_shift|pid`). Allowing that start also exposed defect D7 (moving average, recorded as a known finding).',
 'C17-reference-send-for-send-sync-payload': 'caught by C16/quick on arrival (Miri: data race in the cross-thread case of the reference program) but not by C17 itself: the Send / Sync compile-time probe now also runs at the start of every C17 reference '
   'history. Caught by C17/quick since (`C17|reference_crosses_threads|send_sync`).',
 'C02-expirer-clamps-negative-age': 'MISSED at both tiers: expiry limits were 0 .. i64::MAX. The random plans now also draw negative limits (-1, -1000, -5 s), with the clock placed just before / at / after `stamp + limit` as for the others. '
   'Caught at quick tier since.',
 'C12-maf-evicts-by-age-difference': 'MISSED at both tiers: histories only moved forward from one start, so two consecutive stamps were never more than i64::MAX ns apart. 3 % of the moving-average histories are now "eras": the first half '
   'around -2^62, the second around +2^62 (every stamp and every `stamp - window` representable, the distance between the halves not). Caught at quick tier since (`C12|panic|ma_f`).',
 'C16-static-lock-macros-lazy-init-in-unsafe': 'MISSED at both tiers: the negative compile probes covered `to_dyn!` and the routes from the unsafe enum only. Three more probes hand an initial value that dereferences a raw pointer to '
   '`static_reference!`, `static_rw_lock_reference!` and `static_mutex_reference!` from a crate without `unsafe`; each must be rejected with E0133. Caught at quick tier since.',
 'C20-encoder-updates-terminal-after-writing': 'MISSED at both tiers: a wrapper whose own terminal also follows a getter was not judged ("unmodelled follower"). The encoder wrapper is now modelled with a following terminal (a sixth of the '
   'encoder runs): the followed state is pulled into the slot when the wrapper refreshes its terminal, i.e. before a present reading is written and instead of it only when the encoder delivers nothing. Caught at quick tier since.',
 'C08-geartrain-fma-libm-arm-slip': 'caught by C19/quick (the alloc + libm build diverges) but MISSED by C08: the property batches ran in the checked std build and the shipped release build only. Every simulator property now runs '
   'its batch through two more simulators: rrtk as alloc + libm (no std), and rrtk as std + dim_check_release compiled without debug assertions. Caught by C08/quick since.',
 'C10-a2s-unit-check-in-debug-assert': 'MISSED at both tiers (C19 too): no build had unit checking ON and debug assertions OFF - the one documented configuration where the two disagree. `variants/stdrelease_dim` is that build (twelfth in '
   'C19), and every property batch also runs through it; the wrong-unit samples of the C10 histories must panic there as in the checked debug build. Caught by C10/quick since.',
 'C09-state-write-debug-assert-borrows-partner': 'MISSED at both tiers: writes were only issued with nothing borrowed. Every state / command write to a linked terminal is now repeated while the caller holds the PARTNER\'s mutable guard '
   '(a write needs only the written end). Caught at quick tier since (`C09|panic|write_while_partner_mutably_borrowed`).',
 'C11-non-finite-error-resets-controller': 'caught by C05/quick (bounded recovery of the command controller after a glitched reading, added the round before) but MISSED by C11: its histories had no non-finite readings. The 2 % glitched '
   'readings (NaN, +-inf, usually in the controlled component) are now part of the C11 histories too; the model expects a present output there. Caught by C11/quick since.',
 'C15-set-time-exclusive-clock-borrow': 'MISSED at both tiers: the caller never looked at the shared clock itself during a call. Op HOLD: the harness keeps its own read-only view (shared borrow) of the clock alive across the read-only calls '
   '(constructors, set_time, get, constant getter, motion-profile adapter). Caught at quick tier since (`C15|panic|HTIME`).',
 'C02-exponent-one-half-uses-sqrt': 'MISSED at both tiers, for two reasons: the exponent node\'s VALUE was not judged at all in the stream world (only category and stamp; values of the power function were left to C19\'s '
   'cross-build comparison, which cannot see a change that every build shares), and exponent 0.5 with a base of -0.0 / -inf was never drawn. In builds with std the model now expects `f32::powf` bit for bit, a fourth '
   'enumerated block runs the five binary f32 combinators over a 16 x 16 grid of landmark values (NaN, +-inf, +-MAX, +-0, subnormals, 0.5, 1, 2, 3, -1, ...), and random leaves draw such landmarks too. Caught at quick tier since.',
 'C16-safe-from-reference-unsafe': 'MISSED at both tiers: the change alters no program that compiled before. Five more negative compile probes (`callers/safe_route_probes`, one binary each, no `unsafe`): `Reference::from(ReferenceUnsafe::Ptr(p))`, '
   'the same through `.into()`, the tuple constructor, `ReferenceUnsafe::borrow`, `Reference::from_ptr` without unsafe. Each must be rejected with the expected error code; a probe that builds is `C16|safe_route_to_reference|<probe>`. '
   'Caught at quick tier since.',
 'C17-to-dyn-rc-unimplemented-in-alloc-only-build': 'MISSED at both tiers: the reference histories ran only against rrtk built with std (in the no_std variants of the simulator that world was compiled out). They now also run in the '
   'simulator linked against rrtk built with alloc + libm, on the two variants that exist there (pointer, Rc). Caught at quick tier since (`C17|to_dyn_panics|rc_ref_cell`).',
 'C19-libm-with-micromath-uses-micromath-powf': 'MISSED at both tiers: no build enabled both no_std float back ends. An eleventh build (alloc + libm + micromath, compared under the libm rules: 4 ulps on the direct power-function grid) was '
   'added. Caught at quick tier since.',
 'C20-encoder-skips-equal-datum-signed-zero': 'caught by C20/thorough only (the minimiser\'s zeros found it). Encoder components are now zeros of either sign 12 % of the time, and half of the readings that reuse the previous stamp are the '
   'previous reading with the signs of its zeros flipped. Caught at quick tier since.',
 'C03-sum-pairwise-above-eight-drops-stamp': 'MISSED at both tiers: n-ary combinators were built with at most eight inputs. A tenth of the random stream plans now use up to twelve, and the free-magma payload world builds sums and '
   'products of 9..12, 16 and 33 inputs (the grouping of the fold is part of what it fingerprints). Caught at quick tier since (`C03|stream_timestamp|sum`).',
 'C08-geartrain-meshing-fast-path-squares': 'MISSED at both tiers: device readings were scaled 1/8..64. 6 % of the C08 runs now scale all readings by 1e19..1e30 or 1e-20..1e-27 (values whose squares leave the f32 range although they, '
   'and every quantity the projection computes, do not). Caught at quick tier since.',
 'C09-state-read-debug-assert-borrows-own-cell': 'MISSED at both tiers: terminals were read through shared guards only. After every operation every terminal is now also read through its own MUTABLE guard (a RefMut derefs to &Terminal; '
   '"write, then read back through the same guard" is ordinary safe code): no panic, same data. Caught at quick tier since.',
 'C10-integral-reads-input-twice': 'MISSED at both tiers (C05 too): scripted sensors only changed between operations. New fault FLAP: the sensor answers the first read of the next update as scripted and every later read with an error (a live '
   'input: a datum that expires, a value another task overwrites); from the next operation on it holds that error. The model sees the first read, as a stream that reads its input once per update does (all of them do). Caught at '
   'quick tier since. The absent-deletion twin is not built for histories with a flapping input.',
 'C11-integral-held-one-ulp-from-command': 'caught by C11/thorough only: samples one representable value away from the reference were generated around a ZERO setpoint / command only. 70 % of the ulp-walk runs with a non-zero '
   'reference now "hover": every sample of the controlled component is the reference or 1..3 steps next to it. Caught at quick tier since.',
 'C13-axle-skips-command-following-terminal': 'MISSED at both tiers: device terminals followed getters of STATES only. Terminals can now follow COMMAND getters as well (ops TFC / TFCN; a tenth of the C13 runs, and the follower runs of '
   'C08): the followed command is pulled into the terminal\'s own slot by the owning device at the start of every update, modelled for unlinked terminals; the bounded-progress bookkeeping stands down in such runs. Caught at quick tier since.',
 'C15-history-getter-holds-clock-borrow-across-history': 'MISSED at both tiers: the recording history never touched the clock it shares with its adapter. It can now be switched (op HTOUCH) to take exclusive access to that clock while it '
   'answers and while it is updated, which the original permits because it has released the clock by then. Caught at quick tier since (`C15|panic|HGET`). Also new here: the ticking clock can stay on for whole stretches of a run '
   '(op TICK), so constructors, set_time, the constant getter and the motion-profile adapter are all exercised on a clock that moves between two reads of one call.',
 'C20-encoder-skips-reading-with-held-stamp': 'MISSED at both tiers: encoder readings always carried fresh stamps. One reading in ten now reuses the stamp of the previous one with new values. Caught at quick tier since.',
 'C02-none-to-value-exclusive-clock-borrow': 'MISSED at both tiers: the harness never looked at a leaf or a clock itself while a node was being read. Scripted clocks can now be ONE shared Reference (Rc or RwLock, header `clockref`), '
   'and the second read of every RR step happens while shared borrows of all shared leaf and clock References are alive; it must not panic, must return (watchdog) and must equal the first read. The stateful-stream world does the same in a fifth of its runs (header `hold_inputs`: shared borrows of the node\'s input References are alive during every update and read). Caught at quick tier since '
   '(`C02|hang|comb`, `C02|panic_while_inputs_borrowed|n2v`).',
 'C16-disconnect-skips-borrowed-partner': 'caught by C09/quick (half a link after a refused operation, added the round before) but MISSED by C16: the Miri device programs only had "device dropped while linked" shapes and a plain control. New '
   'control (crash kind 3, all eleven accessors at thorough tier): link operations refused while the outer terminal is being read, then an orderly disconnect from the device\'s side, the device\'s scope ends, the survivors are '
   'used. Clean on the pinned tree; with the change Miri reports the use-after-free. (Writing it showed that `drop(dev)` of a local leaves its stack slot allocated: the device now lives in an inner block.) Caught by C16/quick since.',
 'C17-to-dyn-evaluates-argument-twice': 'MISSED at both tiers: every `to_dyn!` argument in the harness was a variable or a `.clone()`, for which evaluating twice is invisible. The reference world now also passes a block with a side effect '
   '(must be evaluated exactly once) and `slot.take().unwrap()`; the #![no_std] caller uses the latter as well. Caught at quick tier since (`C17|to_dyn_panics`, `C17|aliasing`).',
 'C19-unchecked-quantity-eq-via-partial-ord': 'MISSED at both tiers: the value-level API world compared Quantities only for ordinary operands, and only with `==` and `partial_cmp`. It now enumerates all six comparison operators and both '
   'directions of `partial_cmp` over a 12 x 12 grid (NaN, +-inf, +-0, +-MAX, subnormal, ordinary) at the start of every batch, and one random operand in ten is such a value. Caught at quick tier since.',
 'C02-product2-multiplies-in-reverse-order': 'MISSED at both tiers: every combinator was instantiated at f32, Quantity and bool, whose operators commute bit for bit, so "in input order" and its mirror image '
   'were indistinguishable. New world `word` (sim/src/words.rs, one C02 run in sixteen): the six arithmetic combinators over a payload whose +, -, *, / are a free magma hashed into 64 bits - neither commutative nor '
   'associative - so the result fingerprints the whole expression tree (operator, operand sides, grouping of the n-ary fold); all category pairs x stamp orders enumerated, Sum2 / Product2 also compared with the n-ary '
   'stream over the same inputs. Caught at quick tier since (`C02|word_operand_order|product2`).',
 'C08-invert-set-inside-debug-assert': 'caught by C19/quick (the build compiled without debug assertions diverges from the reference) but MISSED by C08 at both tiers: every property batch ran only in the '
   'simulator linked against the checked build. Each simulator property now runs its batch a second time through the simulator linked against rrtk exactly as `cargo build --release` ships it (default features, '
   'no debug assertions, no overflow or dimension checks), under the same oracles. Caught by C08/quick since.',
 'C10-v2s-assert-not-ok-panics-in-unchecked-builds': 'caught by C19/quick, MISSED by C10 at both tiers for the same reason as the previous entry; caught by C10/quick since the shipped-configuration pass exists.',
 'C09-disconnect-clears-own-link-before-partner-borrow': 'MISSED at both tiers: link operations were only ever issued while nobody held a borrow, so none was ever refused half-way. Two fault operations were added to the '
   'C09 histories: DB (disconnect while the partner is being read) and CB (connect while some terminal is being read). RefCell refuses the write with a panic - that is not judged - but afterwards the reads of all '
   'terminals must fit one of the symmetric matchings the call passes through between whole steps (old matching, old minus the links of the involved terminals, completed); then everything touched is unlinked '
   'from both ends and the history goes on. Caught at quick tier since (`C09|half_link_after_refused_op|disconnect`).',
 'C11-restarts-after-a-day-without-samples': 'caught by C11/thorough only: sampling intervals were at most 4 h. 2 % of the steps of every node history are now long silences (a day, a weekend, a month, a year, up to '
   '3000 days). Caught at quick tier since.',
 'C13-disconnect-keeps-own-link': 'caught by C09/quick (whose property it breaks) but MISSED by C13: relay histories never took a coupling apart. 8 % of the C13 rounds now disconnect a random terminal, usually followed '
   'by a newest command somewhere. Caught by C13/quick as well since.',
 'C15-history-getter-reads-clock-twice': 'MISSED at both tiers: scripted clocks only moved between operations, so two reads within one call saw the same instant. A quarter of the adapter reads now run on a clock that '
   'advances by 7 ns at every read (a free-running counter); the model takes the FIRST reading of the call. Caught at quick tier since (`C15|adapter_get|history_time`).',
 'C20-actuator-holds-terminal-borrow-during-inner-update': 'MISSED at both tiers: the inner objects of the wrappers never touched the device system themselves. In a quarter of the C20 runs they now talk back to their '
   'wrapper\'s own terminal from inside the calls the wrapper makes on them (op FB: write a state from `update()`, or read the terminal from `update()` / `get()` / `impl_set()`), which the original permits because it '
   'holds no conflicting borrow there. Caught at quick tier since (`C20|panic|device_update`).',
 'C12-maf-trim-adds-window-to-stamp': 'MISSED at both tiers: histories reached 2^62 at most; the end of the axis where `stamp + window` overflows (and the original `stamp - window` does not) was never visited. '
   '2 % of the node runs now lie within seven minutes of i64::MAX (steps up to 1 s; moving-average windows from nanoseconds to hours). Caught at quick tier since.',
 'C20-encoder-skips-write-when-link-already-reads-it': 'MISSED at both tiers: encoder readings and the states fed to the peer were drawn independently, so the link never already read the datum the encoder '
   'delivered. 12 % of the readings are now also written, identically, to the feeding terminal just before. Caught at quick tier since (`encoder_relay`: own slot empty).',
 'C17-arcrwlock-shared-borrow-queues-behind-write': 'MISSED by C17 at both tiers (C16\'s Miri program, extended the same hour, reports the deadlock): no history ever held two shared borrows of one target at once. The '
   'reference world has an operation for that now (RR: through two handles, nested, for every variant but the Mutex-backed ones), and the Miri program a directed case. Caught by C17/quick since (`C17|hang|refs`).',
 'C16-to-dyn-wraps-caller-expression-in-unsafe': 'MISSED at both tiers: the change alters no program that compiled before, it admits new ones. A NEGATIVE compile probe was added: `callers/unsafe_probe` contains no '
   '`unsafe` and passes `Reference::from_ptr(p)` to `to_dyn!`; it must be rejected with E0133, and a successful build is `C16|to_dyn_admits_unsafe_argument|compile`. Caught at quick tier since. (The author\'s '
   'demonstration itself compiles only with the change.)',
 'C19-std-with-micromath-uses-micromath-powf': 'MISSED at both tiers: no build enabled std together with a second float back end. Two builds were added (std + micromath, std + libm; ten in all), compared strictly with '
   'the std reference. Caught at quick tier since.',
 'C02-expirer-holds-input-borrow-while-reading-clock': 'MISSED at both tiers: every clock of the stream world was a free-standing scripted object. One expirer / substitute-value node in eight now takes its '
   'time from a sensor\'s own timestamps through the crate\'s TimeGetterFromGetter, preferably the sensor it reads (with shared lock-backed leaf References the clock then locks the object '
   'the node is still holding). Caught at quick tier since (`C02|hang|comb`). Random plans also draw NaN, +-inf, -0.0, f32::MAX and subnormal leaf values now.',
 'C05-f2q-drives-its-input-update': 'would have been MISSED (extension written after reading the report): scripted sensors\' own update() always succeeded and no stream is supposed to call it. It can now be made '
   'to fail (op SUE); a stream that drives its input and mishandles the failure shows as a stale value. Caught at quick tier.',
 'C08-tooth-counts-truncated-to-integers': 'would have been MISSED (same): tooth lists were integer counts 6..60. One list in eight now has a first or last entry that is not a whole number. Caught at quick tier.',
 'C09-partner-nan-state-ignored': 'would have been MISSED (same): state components were ordinary numbers. In the free-terminal plans 12 % of the components are now NaN, +-inf, -0.0, f32::MAX or subnormal, and '
   'NaN / infinite expectations are compared exactly. Caught at quick tier.',
 'C10-p2s-steady-state-fast-path-keeps-old-position': 'MISSED at both tiers: values were drawn independently of the intervals, so three equal non-zero difference quotients in a row did not occur. 6 % of the '
   'node runs are now exact ramps (equal steps on a fixed-rate grid, or slope x whole seconds on an irregular whole-second grid). Caught at quick tier since.',
 'C11-error-integral-clamped-at-1e30': 'MISSED at both tiers: magnitudes stayed below 1e6. 3 % of the PID / CommandPID runs now live at 1e27 with gains around 1e-24 and intervals of 1 ms..100 s '
   '(outputs moderate, internal integrals beyond 1e30, every intermediate inside the f32 range). Caught at quick tier since.',
 'C13-command-div-subnormal-multiplies': 'MISSED at both tiers: subnormal command values had been taken out of the pool because the relay oracles could not tell an agreeing copy from a conflicting one down there. '
   'They are back (1 %); a terminal that already holds an agreeing copy with the newest stamp is not judged on its value again, and bounded progress allows one subnormal step per hop, '
   'scaled by the following ratios. Caught at quick tier since.',
 'C15-failed-set-restores-last-request-over-nested-set': 'would have been MISSED (same): the re-entrant motor never called set on itself. Mode 5 makes it apply a fall-back request of its own through the public '
   'set before treating the outer request as usual. Caught at quick tier.',
 'C19-std-only-round-in-time-from-seconds': 'caught by C19/thorough (a motion-profile boundary one nanosecond off) but MISSED by C19/quick: the seconds handed to `Time::try_from` were moderate values, '
   'whose nanosecond counts have no fractional part in f32. Half of those conversions now use durations of a few ns to 8 ms with a .25 / .49 / .5 / .51 / .75 fractional nanosecond count, '
   'of either sign. Caught at quick tier since.',
 'C13-geartrain-tie-relays-side2-back': 'MISSED at both tiers, and for a reason that turned out to be a defect of the ORIGINAL code: the relay oracles skipped value comparison whenever a tied copy was '
   'non-finite. Tightening them (among tied copies the finite one is the source; copies agree when either is the image of the other; a finite expectation requires a finite reading) reported the '
   'mirror image of the author\'s change on the UNCHANGED tree: ties were always relayed 1 -> 2, so a command issued on side 2 was overwritten by (v / ratio) * ratio on the next update (+-inf when '
   'v / ratio overflows) - genuine defect D6, repaired in /repo by a fix: commit (relay only when one side is strictly newer). The author\'s change is stored rebased onto the repaired tree and is '
   'caught at quick tier; `C13-geartrain-drops-commands-that-overflow` was rebased too.',
 'C19-state-update-empty-in-default-release-build': 'MISSED at both tiers: all six builds had debug assertions on and none enabled dim_check_debug alone, so code under '
   '`not(any(dim_check_release, dim_check_debug))`-style predicates that forget `debug_assertions` was never compiled in its failing shape. A seventh build was added: the '
   'crate\'s DEFAULT features with the rrtk package compiled without debug assertions (`stdrelease_nodim`: what a default-feature user\'s `cargo build --release` gives). '
   'Caught at quick tier since.',
 'C17-to-dyn-names-std-in-callers-crate': 'MISSED at both tiers (and the evaluation script did not count a demonstration that fails to COMPILE as failing - fixed): both calling crates '
   'of the check link std, whatever features they declare. A third calling crate, `callers/nostd` (#![no_std] library + a small std runner), now expands `to_dyn!` on the Rc and '
   'static variants while rrtk is built with std; if it does not build or run, that is `C17|to_dyn_no_std_caller|...`. Caught at quick tier since.',
 'C16-reference-unsafe-impl-send-sync': 'MISSED at both tiers: the change alters no existing program, it admits new ones. The Miri reference program now decides at compile time (method '
   'resolution: an inherent method bounded on Send against a blanket trait fallback) whether an Rc-backed Reference may move to another thread; if the type system allows it, it '
   'does so and churns the counts from two threads - the interpreter reports the data race - and the case fails in any event. Caught at quick tier since.',
 'C20-terminaldata-stamp-newer-of-state-and-command': 'NOT reported by the C20 check (its expectations are built from the real combined read of the wrapper\'s terminal, so a change inside that read moves '
   'both sides), but by C09/quick (`combined_read_time`), the property that states which stamp the combined read carries. Left as it is: the defect is in the terminal, and the terminal\'s '
   'check reports it.',
 'C13-geartrain-drops-commands-that-overflow': 'MISSED at both tiers: command values came from the moderate pool, so no relayed value ever left the f32 range. 3 % of the commands are now '
   'f32::MAX, +-1e37, -3e38, 3e36; the relay oracles treat an image beyond the f32 range as +-inf (no value comparison, stamp and kind still checked; a tie between an '
   'overflowed and a finite copy counts as a conflict). Caught at quick tier since (bounded progress: the far side reads nothing).',
 'C10-derivative-interval-cache-u32-key': 'MISSED at both tiers: consecutive intervals were drawn independently, so two different intervals with equal low 32 bits had probability 2^-32. '
   '3 % of the intervals are now the previous interval +- 2^32, 2^31, 2^33, 2^24 or 2^16 ns (what a cache or a narrowing cast keyed on the interval confuses). Caught at quick tier since.',
 'C09-command-read-borrows-partner-mutably': 'MISSED at both tiers: every read was made with no other borrow alive. After every operation each linked terminal is now read again while a '
   'shared borrow of its partner is held (reading both ends of a link side by side is ordinary safe use): it must not panic and must return the same data. Caught at quick tier since.',
 'C15-follow-holds-getter-borrow-across-set': 'would have been MISSED (the extension was written after reading the author\'s report, before the first evaluation): the re-entrant motor only swapped '
   'what it follows. It can now also (MRE 4) take a mutable borrow of the followed getters from inside impl_set, as a follower that acknowledges consumed setpoints would. Caught at quick tier.',
 'C19-nostd-abs-positive-zero': 'pointed at `Quantity::abs`, which the value-level API world called but never with a zero operand and never followed by a division. '
   'Extending the world (zeros of both signs and equal operands as regular operands; reciprocal of abs / of negation; division by a - a) reported a divergence on the '
   'UNCHANGED tree: abs(-0.0) kept its sign without std - genuine defect D5, repaired in /repo by a fix: commit. The author\'s change (abs(+0.0) = -0.0 without std) '
   'is stored rebased onto the repaired tree and is caught at quick tier.',
 'C04-dt-via-f64-absolute-timestamps': 'MISSED at both tiers: histories started within +-2^41 ns of zero and the time-shift twin shifted by at most 2^50. Start times now '
   'include 2^53+, nanoseconds since the Unix epoch, 2^62 and -2^60, and the twin also shifts the history to the Unix epoch, to 2^53 and to either end of the i64 '
   'range. Caught at quick tier since.',
 'C02-sum2-holds-first-borrow-while-reading-second': 'MISSED at both tiers: every node reached a leaf through an Rc handle of its own, so a borrow kept alive while another '
   'input is read could not conflict with anything. Plans now choose how leaves are reached (header leafref): own handles, or ONE shared Reference per leaf behind an Rc, '
   'a Mutex or an RwLock; a third enumerated block passes the same lock-backed Reference as both / all value inputs of every multi-input combinator. The run never '
   'returns and the watchdog reports `C02|hang|comb`. Caught at quick tier since.',
 'C17-ptrmutex-try-lock': 'MISSED at both tiers: the scheduled threads only built the Arc variants. Shapes now include the pointer-to-lock variants (PtrMutex / PtrRwLock '
   'over the lock inside the shared Arc, which is what the static_* macros build over a static). Caught at quick tier since (panic under contention).',
 'C16-rc-borrow-unguarded': 'MISSED at both tiers: no program kept two guards of one target alive at once. The Miri reference program now checks the borrow discipline of the '
   'Rc variant in both orders, through the concrete and the trait-object handle (a conflicting borrow must be refused; if it is granted the following uses are an '
   'aliasing violation the interpreter reports). Caught at quick tier since.',
 'C12-moving-average-128-sample-cap': 'MISSED at both tiers, and outside the property\'s sampling bound (histories of up to 64 events cannot put 129 samples into a window). The '
   'statement itself has no length limit, so 2 % of the node runs of every kind now have 130..320 events, with the moving-average window holding hundreds of '
   'samples. Caught at quick tier since.',
 'C08-geartrain-update-terminals-pulls-side1-twice': 'MISSED at both tiers: device terminals only ever received states by set or through a link. In an eighth of the C08 runs '
   'device terminals now FOLLOW scripted getters (ops TF / TFN); the owning device\'s update pulls them, and the projection oracle is fed the followed state for '
   'unlinked follower terminals (updates with a linked follower terminal are not judged). Caught at quick tier since.',
 'C09-mean-halve-before-add-subnormal': 'NOT REPORTED, deliberately: a/2 + b/2 is a mean of the two states and differs from (a+b)/2 by at most one subnormal step (1.4e-45) in '
   'components that are odd subnormals - a rounding-level difference of a re-associated formula, which the checks must not flag (the same reformulation is one of '
   'the 23 "must stay quiet" pairs of tools/muttest.py). Kept here for the record; it is the one stored change that no check catches.',
 'C15-follow-writeback-overwrites-reentrant-change': 'MISSED at both tiers: every operation of the settable world was issued from outside an update, and the '
   'user motor only recorded / rejected. The motor can now be armed (op MRE) to call stop_following, follow(alternative) or follow(primary) from inside '
   'its next impl_set - re-entrancy as one more injected event; the model applies the change at the moment the forwarded set reaches impl_set. Caught at '
   'quick tier since.',
 'C20-pid-wrapper-resets-when-terminal-sees-nothing': 'MISSED at both tiers: the wrapper runs kept their wiring for the whole run, so "the terminal sees nothing" '
   'only happened before the first data. A third of the C20 runs now cut the wrapper\'s link for a few rounds and restore it (partition / heal); the twin is '
   'simply not fed during the gap. Caught at quick tier since.',
 'C11-set-epsilon-tolerance-on-command': 'caught by C11/thorough (through a NaN command) but MISSED by C11/quick: new command values were unrelated to the current one. '
   'set() and followed-command changes now use the neighbouring float (1..3 ulps, or a tiny value next to 0) in 30 % / 12 % of the cases. Caught at quick tier since.',
 'C02-expirer-deadline-overflow': 'MISSED at both tiers: expiry limits were at most 5 s and expirers were excluded from the extreme-timestamp runs (the age '
   '`now - stamp` itself overflows there). A quarter of the runs containing an expirer now use a huge limit (i64::MAX, i64::MAX - 1, i64::MAX/2 + 10, 2^62) with '
   'non-negative stamps and clocks, where the age is representable but `stamp + limit` is not. Caught at quick tier since.',
 'C04-derivative-one-ulp-deadband': 'MISSED at both tiers, for two reasons: no generator produced consecutive samples one ulp apart, and the reference model gave '
   'every subtraction an uncertainty of half an ulp of its result even when IEEE arithmetic makes it exact, so a difference of neighbouring floats was '
   'as uncertain as it was large. The model now treats a sum/difference of exactly known values whose result is an f32 as exact (Sterbenz), and 8 % of '
   'the node runs walk their samples by 1..3 ulps with the setpoint / command at 0. Caught at quick tier since.',
 'C05-ewma-tie-across-error': 'caught by C12/quick and C05/thorough but MISSED by C05/quick: repeated timestamps were only generated inside error-free stretches '
   '(C12 profile). In every node run the first sample after an error now repeats the last stamp before it with probability 0.2 (a restarted stream has '
   'no memory, so this is inside every stateful property\'s domain). Caught by C05/quick since.',
 'C16-to-dyn-arc-variants-dangle': 'C17/quick reported it (as a run that never returns: locking a freed mutex) only after the batch got a hang watchdog; before, '
   'the check itself hung. C16 MISSED it at quick tier (thorough: Miri use-after-free in a random history): the Miri reference program tried `to_dyn!` on the '
   'Rc variant only. It now tries every variant (a refusal is fine) and has a directed convert / drop-all-concrete-handles / use case per variant. '
   'Caught by C16/quick since.',
 'C17-arcmutex-sole-owner-fast-path': 'MISSED at both tiers: every shuttle thread owned a strong clone and the spawning thread kept one, so the strong count '
   'never reached 1 while borrows were contended. New ownership shape: the spawning thread holds the only strong handle and works alongside threads that '
   'hold `Weak`s and upgrade one per operation. Caught at quick tier since (lost increments).',
 'C19-libm-powf-whole-exponent-squaring': 'MISSED at both tiers: power-function results were compared with a tolerance of 1e-4 of the run\'s largest value (needed '
   'downstream of EWMA recursions), and exponents were "moderate" floats. The value-level API world now reads the power function directly '
   '(ExponentStream over two constants) on a 13 x 28 base x exponent grid (whole exponents up to +-1000 and 2^31, subnormal results) plus random cases, and '
   'std vs libm must agree there to 4 ulps (measured: at most 1). Caught at quick tier since.',
 'C11-drops-samples-closer-than-epsilon': 'MISSED at both tiers: the shortest sampling interval the node generator produced was 1 us (the bound C04 and C10 state), '
   'but C11 and C12 state no lower bound. A sixth of the cpid / EWMA runs now sample at 1 ns .. 1 us spacing with the 118..121 ns neighbourhood as '
   'special values. Caught at quick tier since.',
 'C03-latest-all-at-i64-min': 'MISSED by C03 and C02 at both tiers: "near-extreme" leaf stamps were i64::MIN + 1000 +- 500, never the extreme itself (the Datum '
   'operator world did use it). The stream world now also anchors extreme runs at exactly i64::MIN / i64::MAX (saturating neighbours), device stamps '
   'may start at i64::MIN, and a newest-of that returns nothing although candidates exist is reported under C03 as well as C02. Caught at quick tier since.',
 'C20-encoder-swallows-fromnone': 'MISSED at both tiers: every injected error was `Error::Other(1|2)`; the crate\'s own `Error::FromNone` variant was only ever '
   '*produced* by NoneToError, never *injected*. Error code 3 now injects `Error::FromNone` at every fault point of every world (leaf getters, clocks, '
   'inner devices, motors, settables, followed getters). Caught at quick tier since.',
 'C16-axle-get-terminal-off-by-one': 'MISSED at both tiers: no program of the harness ever asked an axle for a terminal it does not have. The Miri axle '
   'cases now probe `get_terminal(N)`, `N+1` and `usize::MAX` and require a panic; Miri reports the out-of-bounds reference. Caught at quick tier since.',
 'C19-nostd-time-div-shift': 'caught only by the THOROUGH tier at first (through a motion profile whose first phase lasts an odd number of nanoseconds, a '
   '1-2 ulp difference). The value-level API world did not exercise the exact integer operators at all; it now enumerates all 19 integer operator forms over a '
   '12 x 12 operand grid (signs, zero, odd/even, powers of two) at the start of every batch. Caught at quick tier since.',
 'C17-arcmutex-clone-bitwise': 'DETECTED BUT MIS-REPORTED at first: the history oracle saw `target_freed_early`, then the shuttle stage process was killed by the '
   'corrupted heap and the driver exited 2 (harness error) before printing anything. A killed shuttle process is now itself a violation whose replay is the '
   'seeded run, and earlier findings are printed first.',
 'C20-pid-clock-only-with-state': 'MISSED by the first version of the C20 check at both tiers: the generator always delivered a state before the first '
   'command (the design had declared command-only rounds outside the statement). The statement does cover them (the twin runs on the constructor state), '
   'so the generator now produces command-only openings in 40 % of the PID-wrapper runs; caught at quick tier since.',
}
rows = []
for d in sorted(glob.glob('/verif/seeded/*/')):
    m = json.load(open(d + 'meta.json'))
    first = next((v['signatures'][0] for k, v in m['checks'].items() if v['exit'] == 1 and v['signatures']), '')
    rows.append((m['name'], m['breaks'], m['confirmed'], ', '.join(m['caught_by']), first.replace('|', '\\|')[:150]))
out = ["# Independently written property-breaking changes\n",
"Each directory holds `patch.diff` (library change only), `seeded_demo.rs` (the author's demonstration), `NOTES.author.md` and",
"`meta.json` (what was confirmed and which checks were run). The authors were sub-agents that saw only the text of one property and",
"a scratch worktree of the repository — no file from /verif. From the second round on they were additionally told, in one sentence each,",
"what earlier authors had changed (so that they would pick something else); from round six on the request also said, in prose, what kind",
"of tester the change has to slip past (what it generates and what it compares - written from memory of the checks, with a list of places",
"it might not reach), which made the changes markedly harder to catch: rounds 1-5 found 7 gaps in 42 changes, rounds 6-9 found 19 in 32.",
"Every change compiles, passes the 138 baseline tests (and the",
"`devices` feature tests), and its demonstration fails with the change and passes without it; all of that was re-run by",
"`tools/seeded_eval.py`, which then applied the patch to /repo, ran the listed checks and undid it (`git -C /repo checkout -- .`).",
"Nothing here is ever committed to /repo.\n",
"| change | breaks | needs, in order to manifest | caught by (tier) | first signature reported |",
"|---|---|---|---|---|"]
for name, prop, ok, caught, first in rows:
    out.append("| `%s` | %s | %s | %s | `%s` |" % (name, prop, NOTES.get(name, ''), caught, first))
out.append("\n%d changes, all confirmed; all but one are caught by the quick tier of the check of the property they target (the column also lists other checks that were tried and fired). The exception, `C09-mean-halve-before-add-subnormal`, is a rounding-level reformulation that is deliberately not reported (see below).\n" % len(rows))
out.append("## Misses and what was done about them\n")
for k, v in HISTORY.items():
    out.append("* `%s` — %s" % (k, v))
open('/verif/seeded/README.md', 'w').write("\n".join(out) + "\n")
print(len(rows), "entries")
