#!/usr/bin/env python3
"""Confirm an independently written property-breaking change and run the checks against it.

  python3 tools/seeded_eval.py <worktree> <name> <primary property> [other properties...]

1. in the worktree: the existing suite passes with the change; the demonstration fails with the
   change and passes without it (git stash);
2. copy patch.diff, the demonstration and the author's notes to /verif/seeded/<name>/;
3. apply the patch to /repo, run the listed checks (quick, and thorough for the primary one if
   quick misses), record which catch it, and undo the patch (git checkout);
4. write meta.json. The worktree is NOT removed here.
"""
import json, os, shutil, subprocess, sys, time

V = "/verif"


def sh(cmd, cwd=None, timeout=7200):
    r = subprocess.run(cmd, cwd=cwd, shell=True, stdout=subprocess.PIPE, stderr=subprocess.STDOUT, text=True, timeout=timeout)
    return r.returncode, r.stdout


def tests_ok(out):
    lines = [l for l in out.splitlines() if l.startswith("test result")]
    return bool(lines) and all(" 0 failed" in l for l in lines) and "error: could not compile" not in out and "error[" not in out


def main():
    wt, name, primary = sys.argv[1], sys.argv[2], sys.argv[3]
    others = sys.argv[4:]
    demo = os.path.join(wt, "tests", "seeded_demo.rs")
    meta = {"name": name, "breaks": primary, "ran": []}
    if not os.path.exists(os.path.join(wt, "patch.diff")) or not os.path.exists(demo):
        print("missing patch.diff or tests/seeded_demo.rs")
        sys.exit(2)
    feat = "--features devices" if "feature = \"devices\"" in open(demo).read() else ""
    # regenerate the patch from the worktree so that it is exactly what is applied there
    rc, diff = sh("git diff -- src Cargo.toml", cwd=wt)
    open(os.path.join(wt, "patch.diff"), "w").write(diff)
    # suite with the change (demo moved aside)
    shutil.move(demo, "/tmp/seeded_demo_aside.rs")
    rc1, o1 = sh("cargo test --workspace --no-fail-fast --offline 2>&1", cwd=wt)
    rc2, o2 = sh("cargo test --features devices --no-fail-fast --offline 2>&1", cwd=wt)
    shutil.move("/tmp/seeded_demo_aside.rs", demo)
    meta["suite_passes_with_change"] = tests_ok(o1) and tests_ok(o2)
    demo_cmd = os.environ.get("SEEDED_DEMO_CMD") or ("cargo test %s --offline --test seeded_demo" % feat)
    meta["demo_cmd"] = demo_cmd
    rc3, o3 = sh(demo_cmd + " 2>&1", cwd=wt)
    meta["demo_fails_with_change"] = rc3 != 0 and ("test result" in o3 or "Undefined Behavior" in o3 or "panicked" in o3 or "could not compile" in o3)
    # (git stash is shared between worktrees: use checkout / apply instead)
    sh("git checkout -- src Cargo.toml", cwd=wt)
    rc4, o4 = sh(demo_cmd + " 2>&1", cwd=wt)
    sh("git apply patch.diff", cwd=wt)
    meta["demo_passes_without_change"] = rc4 == 0 and tests_ok(o4)
    meta["ran"] += ["cargo test --workspace --no-fail-fast --offline (with change)", "cargo test --features devices --no-fail-fast --offline (with change)",
                    "cargo test %s --offline --test seeded_demo (with change, then with the change reverted)" % feat]
    dest = os.path.join(V, "seeded", name)
    os.makedirs(dest, exist_ok=True)
    shutil.copy(os.path.join(wt, "patch.diff"), dest)
    shutil.copy(demo, os.path.join(dest, "seeded_demo.rs"))
    if os.path.exists(os.path.join(wt, "NOTES.md")):
        shutil.copy(os.path.join(wt, "NOTES.md"), os.path.join(dest, "NOTES.author.md"))
    ok = meta["suite_passes_with_change"] and meta["demo_fails_with_change"] and meta["demo_passes_without_change"]
    meta["confirmed"] = ok
    # run the checks against it
    st, _ = sh("git status --porcelain -- src Cargo.toml", cwd="/repo")
    rc, out = sh("git apply %s" % os.path.join(dest, "patch.diff"), cwd="/repo")
    if rc != 0:
        print("patch does not apply to /repo:", out)
        meta["applies"] = False
    else:
        meta["applies"] = True
        meta["checks"] = {}
        try:
            for prop in [primary] + others:
                for tier in ("quick", "thorough"):
                    t0 = time.time()
                    rc, out = sh("VERIF_EVIDENCE_DIR=/tmp/seeded-evidence python3 check.py %s --tier %s" % (prop, tier), cwd=V)
                    sigs = [l.strip() for l in out.splitlines() if l.strip().startswith("signature=")]
                    meta["checks"]["%s/%s" % (prop, tier)] = {"exit": rc, "wall_s": round(time.time() - t0, 1), "signatures": [s[:400] for s in sigs[:4]],
                                                               "tail": out[-600:] if rc == 2 else ""}
                    if rc == 1 or prop != primary:
                        break
        finally:
            sh("git checkout -- .", cwd="/repo")
    caught = [k for k, v in meta.get("checks", {}).items() if v["exit"] == 1]
    meta["caught_by"] = caught
    json.dump(meta, open(os.path.join(dest, "meta.json"), "w"), indent=1)
    print(json.dumps({k: meta[k] for k in ("name", "confirmed", "suite_passes_with_change", "demo_fails_with_change", "demo_passes_without_change", "caught_by")}))
    for k, v in meta.get("checks", {}).items():
        print(" ", k, "exit", v["exit"], (v["signatures"] or [""])[0][:200], v["tail"][-200:])


if __name__ == "__main__":
    try:
        main()
    finally:
        # the harness binaries were last built against a mutated /repo: rebuild them from the restored tree
        subprocess.run("bash /verif/tools/setup.sh >/dev/null 2>&1", shell=True)
