#!/usr/bin/env python3
"""Sensitivity harness: applies each deliberate property-breaking edit to /repo's working
tree, runs the property's quick check, records whether a VIOLATION was raised, and
restores the tree (git checkout). Nothing is committed to /repo.

  python3 tools/muttest.py [--only PREFIX] [--tests] [--tier quick|thorough]
"""
import json, os, subprocess, sys, time

REPO = "/repo"
V = os.path.dirname(os.path.dirname(os.path.abspath(__file__)))

M = []
def mut(mid, prop, path, old, new, occ=0, note=""):
    M.append(dict(id=mid, prop=prop, path=path, old=old, new=new, occ=occ, note=note))

CTRL = "src/streams/control.rs"
MATH = "src/streams/math.rs"
CONV = "src/streams/converters.rs"
FLOW = "src/streams/flow.rs"
LOGIC = "src/streams/logic.rs"
STREAMS = "src/streams.rs"
LIB = "src/lib.rs"
DEV = "src/devices.rs"
WRAP = "src/devices/wrappers.rs"
DATUM = "src/datum.rs"

# ---- C02
mut("m02a_sum_fold_short", "C02", MATH, "            for i in 0..outputs_filled - 1 {\n                value += other_outputs[i].assume_init();", "            for i in 0..outputs_filled.saturating_sub(2) {\n                value += other_outputs[i].assume_init();")
mut("m02b_sum2_swallows_err", "C02", MATH, "        let y = self.addend2.borrow().get()?;\n        let y = match y {\n            Some(y) => y,\n            None => return Ok(Some(x)),\n        };\n        Ok(Some(x + y))", "        let y = match self.addend2.borrow().get() { Ok(y) => y, Err(_) => return Ok(Some(x)) };\n        let y = match y {\n            Some(y) => y,\n            None => return Ok(Some(x)),\n        };\n        Ok(Some(x + y))")
mut("m02c_diff_returns_subtrahend", "C02", MATH, "        match minuend_output {\n            Some(_) => {}\n            None => {\n                return Ok(None);\n            }\n        }", "        match minuend_output {\n            Some(_) => {}\n            None => {\n                return Ok(subtrahend_output);\n            }\n        }")
mut("m02d_if_absent_true", "C02", FLOW, "            Some(output) => output.value,\n            None => false,", "            Some(output) => output.value,\n            None => true,")
mut("m02e_and_none_false", "C02", LOGIC, "                if !datum.value {\n                    and_state = AndState::DefinitelyFalse;\n                }\n            }\n            None => {\n                and_state.none();\n            }\n        }\n        let time", "                if !datum.value && !matches!(and_state, AndState::MaybeTrue) {\n                    and_state = AndState::DefinitelyFalse;\n                }\n            }\n            None => {\n                and_state.none();\n            }\n        }\n        let time")
mut("m02f_expirer_ge", "C02", STREAMS, "if time - output.time > self.max_time_delta {", "if time - output.time >= self.max_time_delta {")
mut("m02g_latest_propagates_err", "C02", STREAMS, "                _ => {}\n            }\n        }\n        Ok(output)", "                Err(e) => return Err(e),\n                _ => {}\n            }\n        }\n        Ok(output)")
mut("m02h_prod_skips_last", "C02", MATH, "            for i in 0..outputs_filled - 1 {\n                value *= other_outputs[i].assume_init();", "            for i in 0..(outputs_filled - 1).min(3) {\n                value *= other_outputs[i].assume_init();", note="needs >= 5 present factors")
mut("m02i_n2v_uses_input_time", "C02", "src/streams/converters.rs", "                return Ok(Some(Datum::new(\n                    self.time_getter.borrow().get()?,", "                return Ok(Some(Datum::new(\n                    { let _ = self.time_getter.borrow().get()?; Time(0) },")
mut("m02j_or_err_order", "C02", LOGIC, "        let gotten1 = self.input1.borrow().get()?;\n        let gotten2 = self.input2.borrow().get()?;\n        let mut time = None;\n        let mut or_state", "        let gotten2 = self.input2.borrow().get()?;\n        let gotten1 = self.input1.borrow().get()?;\n        let mut time = None;\n        let mut or_state", note="needs two different errors at once")
# ---- C03
mut("m03a_diff_older_time", "C03", MATH, "        let time = if minuend_output.time > subtrahend_output.time {", "        let time = if minuend_output.time < subtrahend_output.time {")
mut("m03b_datum_sub_other_time", "C03", DATUM, "    fn sub(self, other: Self) -> Datum<O> {\n        let output_value = self.value - other.value;\n        let output_time = if self.time >= other.time {\n            self.time", "    fn sub(self, other: Self) -> Datum<O> {\n        let output_value = self.value - other.value;\n        let output_time = if self.time >= other.time {\n            other.time")
mut("m03c_terminal_cmd_older", "C03", LIB, "if gotten_command.time > command_some.time {", "if gotten_command.time < command_some.time {")
mut("m03d_axle_seed_zero", "C03", DEV, "let mut datum = Datum::new(Time(i64::MIN), State::default());", "let mut datum = Datum::new(Time(0), State::default());", note="wrong only for negative times")
mut("m03e_replace_ge", "C03", DATUM, "        if maybe_replace_with.time > self.time {\n            *self = maybe_replace_with;", "        if maybe_replace_with.time >= self.time {\n            *self = maybe_replace_with;")
mut("m03f_latest_picks_older", "C03", LIB, "    if dat1.time >= dat2.time {\n        dat1", "    if dat1.time < dat2.time {\n        dat1")
mut("m03g_and_time_first", "C03", LOGIC, "                        if datum.time > existing {\n                            time = Some(datum.time);\n                        }\n                    }\n                    None => time = Some(datum.time),\n                }\n                if !datum.value {", "                        if datum.time > existing && false {\n                            time = Some(datum.time);\n                        }\n                    }\n                    None => time = Some(datum.time),\n                }\n                if !datum.value {")
mut("m03h_cmd_div_assign_time", "C03", DATUM, "impl DivAssign<Datum<f32>> for Datum<Command> {\n    fn div_assign(&mut self, other: Datum<f32>) {\n        self.value /= other.value;\n        self.time = if self.time >= other.time {", "impl DivAssign<Datum<f32>> for Datum<Command> {\n    fn div_assign(&mut self, other: Datum<f32>) {\n        self.value /= other.value;\n        self.time = if self.time <= other.time {")
mut("m03i_mulassign_scalar_restamps", "C03", DATUM, "impl<T: MulAssign> MulAssign<T> for Datum<T> {\n    fn mul_assign(&mut self, other: T) {\n        self.value *= other;", "impl<T: MulAssign> MulAssign<T> for Datum<T> {\n    fn mul_assign(&mut self, other: T) {\n        self.time = Time(self.time.0.wrapping_add(0).max(0));\n        self.value *= other;", note="negative stamps only")
# ---- C04
mut("m04a_rectangle", "C04", CTRL, "let int_error_addend = delta_time * (prev_error.value + error) / 2.0;", "let int_error_addend = delta_time * (error + error) / 2.0;")
mut("m04b_drv_half", "C04", CTRL, "let drv_error = (error - prev_error.value) / delta_time;", "let drv_error = (error - prev_error.value) / (delta_time * 2.0);")
mut("m04e_ki_kd_swapped", "C04", CTRL, "self.kvals.kp * error + self.kvals.ki * self.int_error + self.kvals.kd * drv_error", "self.kvals.kp * error + self.kvals.kd * self.int_error + self.kvals.ki * drv_error")
mut("m04f_error_sign", "C04", CTRL, "let error = self.setpoint - process.value;", "let error = process.value - self.setpoint;")
mut("m04d_prev_time", "C04", CTRL, "        self.output = Ok(Some(Datum::new(\n            process.time,", "        self.output = Ok(Some(Datum::new(\n            match &self.prev_error { Some(p) => p.time, None => process.time },")
mut("m04g_int_not_reset_on_err", "C04", CTRL, "            Err(error) => {\n                self.reset();\n                self.output = Err(error);", "            Err(error) => {\n                self.prev_error = None;\n                self.output = Err(error);")
# ---- C05
mut("m05a_pid_no_reset_on_none", "C05", CTRL, "            Ok(None) => {\n                self.reset();\n                return Ok(());", "            Ok(None) => {\n                self.output = Ok(None);\n                return Ok(());")
mut("m05b_cpid_keeps_err_after_absent", "C05", CTRL, "                Ok(None) => {\n                    self.reset();\n                    return Ok(());", "                Ok(None) => {\n                    if self.update_state.is_ok() { self.reset(); }\n                    return Ok(());")
mut("m05c_ewma_resets_on_none", "C05", CTRL, "                    Ok(_) => {}\n                }\n                return Ok(());\n            }\n            Ok(Some(some)) => some,", "                    Ok(_) => { self.value = Ok(None); self.update_time = None; }\n                }\n                return Ok(());\n            }\n            Ok(Some(some)) => some,")
mut("m05d_ma_keeps_window_on_err", "C05", CTRL, "                self.value = Err(error);\n                self.input_values.clear();", "                self.value = Err(error);")
mut("m05e_tostate_resets_on_none", "C05", CONV, "                    None => (), //This just does nothing if the input gives a None. It does not reset\n                                //it or anything.", "                    None => { self.update = None; }")
mut("m05f_freeze_inverted", "C05", FLOW, "        if !condition {\n            let gotten = self.input.borrow().get();", "        if condition {\n            let gotten = self.input.borrow().get();")
mut("m05i_q2f_get_rereads_input", "C05", CONV, "    fn get(&self) -> Output<f32, E> {\n        self.value\n    }", "    fn get(&self) -> Output<f32, E> {\n        match self.input.borrow().get() {\n            Err(error) => Err(error),\n            Ok(None) => Ok(None),\n            Ok(Some(datum)) => Ok(Some(Datum::new(datum.time, datum.value.value))),\n        }\n    }", note="get() is no longer a pure read of the cached value: visible only when the input changes between update and get")
mut("m05h_derivative_stale_err", "C05", MATH, "            None => {\n                self.value = Ok(None);\n                self.prev_output = Some(output);\n                return Ok(());\n            }\n        };\n        let value =\n            (output.value", "            None => {\n                self.prev_output = Some(output);\n                return Ok(());\n            }\n        };\n        let value =\n            (output.value", note="D2 re-introduced in DerivativeStream")
# ---- C08
mut("m08a_gear_r2_minus_1", "C08", DEV, "let newstate2 = (x_plus_r_y * self.ratio) / r_squared_plus_1;", "let newstate2 = (x_plus_r_y * self.ratio) / (self.ratio * self.ratio - 1.0);")
mut("m08b_invert_plus", "C08", DEV, "let new_state = (state1 - state2) / 2.0;", "let new_state = (state1 + state2) / 2.0;")
mut("m08c_axle_div_n", "C08", DEV, "datum /= count as f32;", "datum /= N as f32;")
mut("m08d_diff_equal_sum", "C08", DEV, ".set((side1 + side2 + sum * 2.0) / 3.0)?;", ".set((side1 + side2 + sum) / 3.0)?;")
mut("m08e_diff_side1_plus", "C08", DEV, "self.side1.borrow_mut().set(sum - side2)?;", "self.side1.borrow_mut().set(sum + side2)?;")
mut("m08f_invert_older_time", "C08", DEV, "                    let time = if datum1.time >= datum2.time {\n                        datum1.time\n                    } else {\n                        datum2.time\n                    };\n                    //average", "                    let time = if datum1.time <= datum2.time {\n                        datum1.time\n                    } else {\n                        datum2.time\n                    };\n                    //average")
mut("m08g_teeth_sign", "C08", DEV, "if N % 2 == 0 { -1.0 } else { 1.0 }", "if N % 2 == 0 { 1.0 } else { -1.0 }")
mut("m08x_gear_near_consistent_fast_path", "C08", DEV, "                    //https://www.desmos.com/3d/gvwbqszr5e\n                    let r_squared_plus_1 = self.ratio * self.ratio + 1.0;", "                    let imp = state1 * self.ratio;\n                    let close = |a: f32, b: f32| (a - b).abs() <= 1e-4 * a.abs().max(b.abs());\n                    if close(imp.position, state2.position) && close(imp.velocity, state2.velocity) && close(imp.acceleration, state2.acceleration) {\n                        self.term1.borrow_mut().set(Datum::new(time, state1))?;\n                        self.term2.borrow_mut().set(Datum::new(time, state2))?;\n                        return Ok(());\n                    }\n                    //https://www.desmos.com/3d/gvwbqszr5e\n                    let r_squared_plus_1 = self.ratio * self.ratio + 1.0;", note="readings that mesh to 1e-4 are left unprojected")
# ---- C09
mut("m09a_disconnect_one_end", "C09", LIB, "                other.other = None;\n                self.other = None;", "                let _ = &mut other;\n                self.other = None;")
mut("m09b_connect_no_disconnect_2", "C09", LIB, "    term1.borrow_mut().disconnect();\n    term2.borrow_mut().disconnect();", "    term1.borrow_mut().disconnect();")
mut("m09c_cmd_read_own_wins", "C09", LIB, "if gotten_command.time > command_some.time {", "if gotten_command.time > command_some.time && false {")
mut("m09d_combined_cmd_time", "C09", LIB, "                time = Some(datum_state.time);", "                if time.is_none() { time = Some(datum_state.time); }")
mut("m09e_state_read_partner", "C09", LIB, "(addends[0].assume_init() + addends[1].assume_init()) / 2.0,", "addends[1].assume_init(),")
mut("m09f_connect_panics_again", "C09", LIB, "    term1.borrow_mut().disconnect();\n    term2.borrow_mut().disconnect();\n    term1.borrow_mut().other = Some(term2);\n    term2.borrow_mut().other = Some(term1);", "    let mut term1_borrow = term1.borrow_mut();\n    let mut term2_borrow = term2.borrow_mut();\n    term1_borrow.disconnect();\n    term2_borrow.disconnect();\n    term1_borrow.other = Some(term2);\n    term2_borrow.other = Some(term1);", note="D1 re-introduced")
# ---- C10
mut("m10a_integral_left_rect", "C10", MATH, "            * (prev_output.value + output.value)\n", "            * (prev_output.value + prev_output.value)\n")
mut("m10b_derivative_dt_reversed", "C10", MATH, "(output.value - prev_output.value) / Quantity::from(output.time - prev_output.time);", "(output.value - prev_output.value) / Quantity::from(prev_output.time - output.time);")
mut("m10c_a2s_pos_seed", "C10", CONV, "                                                        update_2: Some(pos_addend),", "                                                        update_2: Some(pos_addend + old_vel * Quantity::from(Time(1_000_000_000))),")
mut("m10d_derivative_prev_stamp", "C10", MATH, "        self.value = Ok(Some(Datum::new(output.time, value)));\n        self.prev_output = Some(output);\n        Ok(())", "        self.value = Ok(Some(Datum::new(prev_output.time, value)));\n        self.prev_output = Some(output);\n        Ok(())")
mut("m10e_p2s_no_unit_assert", "C10", CONV, "                        new_pos.unit.assert_eq_assume_ok(&MILLIMETER);\n", "")
mut("m10f_v2s_acc_half", "C10", CONV, "let new_acc = (new_vel - old_vel) / delta_time;\n                                let pos_addend", "let new_acc = (new_vel - old_vel) / delta_time / Quantity::dimensionless(2.0);\n                                let pos_addend")
# ---- C11
mut("m11a_set_resets_always", "C11", CTRL, "            if command != self.command {\n                self.reset();\n                self.command = command;\n            }", "            self.reset();\n            self.command = command;")
mut("m11b_err_int_twice", "C11", CTRL, "let error_int = update_1.error_int + error_int_addend;", "let error_int = update_1.error_int + error_int_addend + error_int_addend;")
mut("m11c_oii_seed", "C11", CTRL, "output_int_int: Some(output_int_int_addend),", "output_int_int: Some(output_int),")
mut("m11d_vel_uses_pos_gains", "C11", LIB, "            PositionDerivative::Velocity => self.velocity,", "            PositionDerivative::Velocity => self.position,")
mut("m11e_error_vs_position", "C11", CTRL, "- f32::from(datum_state.value.get_value(self.command.into()));", "- f32::from(datum_state.value.get_position());")
# ---- C12
mut("m12a_ma_no_trim", "C12", CTRL, "        while self.input_values[0].time <= output.time - self.window {\n            self.input_values.pop_front();\n        }\n", "", occ=0)
mut("m12b_ewma_linear_lambda", "C12", CTRL, "let lambda = 1.0 - powf(1.0 - self.smoothing_constant, delta_time);", "let lambda = self.smoothing_constant * delta_time;")
mut("m12c_ewma_swapped", "C12", CTRL, "let value = prev_value.value * (1.0 - lambda) + output.value * lambda;", "let value = prev_value.value * lambda + output.value * (1.0 - lambda);")
mut("m12d_maq_first_twice", "C12", CTRL, "        for i in 1..self.input_values.len() {\n            value += self.input_values[i].value.clone() * weights[i];", "        for i in 0..self.input_values.len() {\n            value += self.input_values[i].value.clone() * weights[i];")
mut("m12e_ma_trim_to_now", "C12", CTRL, "        while self.input_values[0].time <= output.time - self.window {", "        while self.input_values[0].time <= output.time {", occ=0, note="empties the queue -> index panic")
mut("m12f_ma_start_oldest", "C12", CTRL, "        start_times.push_front(output.time - self.window);", "        start_times.push_front(self.input_values[0].time);", occ=0)
# ---- C13
mut("m13a_gear_forward_div", "C13", DEV, "                    if datum1.time > datum2.time {\n                        let newdatum2 = datum1 * self.ratio;", "                    if datum1.time > datum2.time {\n                        let newdatum2 = datum1 / self.ratio;")
mut("m13b_gear_side1_always", "C13", DEV, "                    if datum1.time > datum2.time {\n                        let newdatum2 = datum1 * self.ratio;", "                    if true {\n                        let newdatum2 = datum1 * self.ratio;")
mut("m13c_invert_no_sign", "C13", DEV, "self.term2.borrow_mut().set(-datum_command)?;", "self.term2.borrow_mut().set(datum_command)?;")
mut("m13d_axle_first_present", "C13", DEV, "            maybe_datum.replace_if_none_or_older_than_option(i.borrow().get()?);", "            if maybe_datum.is_none() { maybe_datum = i.borrow().get()?; }")
mut("m13e_replace_ge", "C13", DATUM, "            if self_datum.time >= maybe_replace_with.time {\n                return false;", "            if self_datum.time > maybe_replace_with.time {\n                return false;", note="ties only; expected NOT observable with unique stamps")
# ---- C15
mut("m15a_last_request_before_impl_set", "C15", LIB, "        self.impl_set(value.clone())?;\n        let data = self.get_settable_data_mut();\n        data.last_request = Some(value);\n        Ok(())", "        let data = self.get_settable_data_mut();\n        data.last_request = Some(value.clone());\n        self.impl_set(value)?;\n        Ok(())")
mut("m15b_follow_absent_resets_previous", "C15", LIB, "                    None => {\n                        return Ok(());\n                    }\n                    Some(datum) => {\n                        self.set(datum.value)?;", "                    None => {\n                        let prev = self.get_last_request();\n                        if let Some(v) = prev { self.set(v)?; }\n                        return Ok(());\n                    }\n                    Some(datum) => {\n                        self.set(datum.value)?;")
mut("m15c_stop_following_noop", "C15", LIB, "    fn stop_following(&mut self) {\n        let data = self.get_settable_data_mut();\n        data.following = None;", "    fn stop_following(&mut self) {\n        let data = self.get_settable_data_mut();\n        let _ = data;")
mut("m15d_custom_start_reversed", "C15", LIB, "let time_delta = start - time_getter.borrow().get()?;", "let time_delta = time_getter.borrow().get()? - start;")
mut("m15e_set_time_adds_old_delta", "C15", LIB, "        let time_delta = time - self.time_getter.borrow().get()?;\n        self.time_delta = time_delta;", "        let time_delta = time - self.time_getter.borrow().get()? + self.time_delta;\n        self.time_delta = time_delta;")
mut("m15f_adapter_history_stamp", "C15", LIB, "Some(datum) => Some(Datum::new(time, datum.value)),", "Some(datum) => Some(datum),")
mut("m15g_constant_getter_ignores_set", "C15", LIB, "    fn impl_set(&mut self, value: T) -> NothingOrError<E> {\n        self.value = value;", "    fn impl_set(&mut self, value: T) -> NothingOrError<E> {\n        let _ = value;")
mut("m15h_adapter_minus_delta", "C15", LIB, "self.history.get(time + self.time_delta)", "self.history.get(time - self.time_delta)")
mut("m15i_start_at_zero_sign", "C15", LIB, "let time_delta = -time_getter.borrow().get()?;", "let time_delta = time_getter.borrow().get()?;")
mut("m15j_follow_error_swallowed", "C15", LIB, "                let new_value = getter.borrow().get()?;", "                let new_value = match getter.borrow().get() { Ok(v) => v, Err(_) => return Ok(()) };")
mut("m15k_set_time_offset_on_error", "C15", LIB, "    pub fn set_time(&mut self, time: Time) -> NothingOrError<E> {\n        let time_delta", "    pub fn set_time(&mut self, time: Time) -> NothingOrError<E> {\n        self.time_delta = Time(0);\n        let time_delta", note="offset must stay unchanged when the clock errs")
# ---- C16
mut("m16a_sum_reads_past_filled", "C16", MATH, "            for i in 0..outputs_filled - 1 {\n                value += other_outputs[i].assume_init();", "            for i in 0..outputs_filled.min(N - 1) {\n                value += other_outputs[i].assume_init();", note="reads one unwritten slot unless every input is present")
mut("m16b_terminal_partner_slot", "C16", LIB, "                    addends[addend_count].write(state);", "                    addends[1].write(state);", note="only-partner-present reads slot 0 unwritten")
mut("m16c_axle_new_skips_first", "C16", DEV, "        for i in &mut inputs {\n            i.write(Terminal::new());", "        for i in inputs.iter_mut().skip(1) {\n            i.write(Terminal::new());")
mut("m16d_prod_reads_last_slot", "C16", MATH, "            let mut value = value[0].assume_init();\n            for i in 0..outputs_filled - 1 {\n                value *= other_outputs[i].assume_init();\n            }", "            let mut value = value[0].assume_init();\n            for i in 0..outputs_filled - 1 {\n                value *= other_outputs[i].assume_init();\n            }\n            if N >= 7 && outputs_filled == 3 { let g = other_outputs[N - 2].assume_init(); let _ = g; }", note="arity >= 7 with exactly three present inputs: reads and discards an unwritten slot; invisible natively even when poisoned, only the interpreter sees it")
mut("m16e_rc_clone_no_refcount", "C16", "src/reference.rs", "Self::RcRefCell(rc_ref_cell) => Self::RcRefCell(Rc::clone(&rc_ref_cell)),", "Self::RcRefCell(rc_ref_cell) => Self::RcRefCell(unsafe { Rc::from_raw(Rc::as_ptr(rc_ref_cell)) }),", note="a Reference that outlives its target; Miri sees the use-after-free")
# ---- C17
REF = "src/reference.rs"
mut("m17a_arc_mutex_try_lock", "C17", REF, "            Self::ArcMutex(arc_mutex) => BorrowMut::MutexGuard(\n                arc_mutex\n                    .lock()", "            Self::ArcMutex(arc_mutex) => BorrowMut::MutexGuard(\n                arc_mutex\n                    .try_lock()", note="panics only under contention")
mut("m17b_arc_rwlock_try_write", "C17", REF, "            Self::ArcRwLock(arc_rw_lock) => BorrowMut::RwLockWriteGuard(\n                arc_rw_lock\n                    .write()", "            Self::ArcRwLock(arc_rw_lock) => BorrowMut::RwLockWriteGuard(\n                arc_rw_lock\n                    .try_write()", note="panics only under contention")
mut("m17c_to_dyn_caller_cfg", "C17", REF, "            reference::ReferenceUnsafe::RcRefCell(rc_ref_cell) => Reference::from_rc_ref_cell(\n                rc_ref_cell\n                    as $crate::reference::__macro_support::Rc<", "            #[cfg(feature = \"alloc\")]\n            reference::ReferenceUnsafe::RcRefCell(rc_ref_cell) => Reference::from_rc_ref_cell(\n                rc_ref_cell\n                    as $crate::reference::__macro_support::Rc<", note="D3 re-introduced")
mut("m17d_rc_clone_no_refcount", "C17", REF, "Self::RcRefCell(rc_ref_cell) => Self::RcRefCell(Rc::clone(&rc_ref_cell)),", "Self::RcRefCell(rc_ref_cell) => Self::RcRefCell(unsafe { Rc::from_raw(Rc::as_ptr(rc_ref_cell)) }),", note="target freed while a handle lives")
# ---- C19
DIM = "src/dimensions.rs"
mut("m19a_eq_assume_true_false_when_off", "C19", DIM, "        return self.const_eq(rhs);\n        #[cfg(not(any(\n            feature = \"dim_check_release\",\n            all(debug_assertions, feature = \"dim_check_debug\")\n        )))]\n        true\n    }\n    ///With dimension checking on, behaves exactly like [`const_eq`](Unit::const_eq).\n    ///With dimension checking off, always returns false.", "        return self.const_eq(rhs);\n        #[cfg(not(any(\n            feature = \"dim_check_release\",\n            all(debug_assertions, feature = \"dim_check_debug\")\n        )))]\n        false\n    }\n    ///With dimension checking on, behaves exactly like [`const_eq`](Unit::const_eq).\n    ///With dimension checking off, always returns false.", note="only unchecked builds change")
mut("m19b_nostd_abs", "C19", DIM, "            f32::from_bits(self.value.to_bits() & 0x7fff_ffff),", "            f32::from_bits(self.value.to_bits() & 0xffff_ffff),", note="only no_std builds change")
mut("m19c_time_tryfrom_unchecked_scale", "C19", DIM, "        if was.unit.eq_assume_true(&SECOND) {\n            Ok(Self((was.value * 1_000_000_000.0) as i64))", "        if was.unit.eq_assume_true(&SECOND) {\n            #[cfg(not(any(feature = \"dim_check_release\", all(debug_assertions, feature = \"dim_check_debug\"))))]\n            return Ok(Self((was.value * 1_000_000.0) as i64));\n            #[allow(unreachable_code)]\n            Ok(Self((was.value * 1_000_000_000.0) as i64))", note="only unchecked builds change")
mut("m19d_state_update_nostd_no_half", "C19", "src/state.rs", "            + delta_time * (old_velocity + new_velocity) / Quantity::dimensionless(2.0);", "            + delta_time * (old_velocity + new_velocity) / Quantity::dimensionless(if cfg!(feature = \"std\") { 2.0 } else { 1.0 });", note="only no_std builds change")
mut("m19e_quantity_eq_unchecked", "C19", DIM, "        if self.unit.eq_assume_true(&rhs.unit) {\n            self.value == rhs.value", "        if self.unit.eq_assume_true(&rhs.unit) {\n            self.value >= rhs.value", note="PartialEq of the unchecked build only")
mut("m19f_libm_ewma_path", "C19", CTRL, "        let lambda = 1.0 - powf(1.0 - self.smoothing_constant, delta_time);", "        let lambda = if cfg!(feature = \"std\") { 1.0 - powf(1.0 - self.smoothing_constant, delta_time) } else { 0.5 };", note="no_std EWMA wrong by far more than the power function's ulps")
mut("m19g_axle_nodim", "C19", DEV, "            datum /= count as f32;", "            datum /= if cfg!(feature = \"dim_check_release\") { count as f32 } else { count as f32 + 1.0 };", note="only builds without dim_check_release change")
# ---- C20
mut("m20a_act_command_only", "C20", WRAP, "Some(terminal_data) => self.inner.set(terminal_data.value)?,", "Some(terminal_data) => { let mut v: TerminalData = terminal_data.value; v.state = None; self.inner.set(v)? }")
mut("m20b_act_update_first", "C20", WRAP, "        self.update_terminals()?;\n        match self\n            .terminal", "        self.update_terminals()?;\n        self.inner.update()?;\n        match self\n            .terminal")
mut("m20c_enc_default_when_absent", "C20", WRAP, "            None => return Ok(()),\n            Some(state_datum) => state_datum,", "            None => Datum::new(Time(0), State::default()),\n            Some(state_datum) => state_datum,")
mut("m20d_enc_negates", "C20", WRAP, "self.terminal.borrow_mut().set(new_state_datum)?;", "self.terminal.borrow_mut().set(-new_state_datum)?;")
mut("m20g_enc_reads_before_update", "C20", WRAP, "        self.inner.update()?;\n        self.update_terminals()?;\n        let new_state_datum = match self.inner.get()? {\n            None => return Ok(()),\n            Some(state_datum) => state_datum,\n        };", "        let gotten = self.inner.get()?;\n        self.inner.update()?;\n        self.update_terminals()?;\n        let new_state_datum = match gotten {\n            None => return Ok(()),\n            Some(state_datum) => state_datum,\n        };", note="relays the previous reading; visible only when the inner getter's reading changes in its own update")
mut("m15l_adapter_update_skips_clock", "C15", LIB, "        self.history.update()?;\n        self.time_getter.borrow_mut().update()?;\n        Ok(())", "        self.history.update()?;\n        Ok(())", note="clock never updated / its update error never propagated")
mut("m20e_pid_clock_stuck", "C20", WRAP, "                *self.time.borrow_mut() = terminal_data.time;\n", "")
mut("m20f_pid_cmd_after_update", "C20", WRAP, "                match terminal_data.command {\n                    Some(command) => self.command.borrow_mut().set(command)?,\n                    None => (),\n                }\n                self.pid.borrow_mut().update()?;", "                self.pid.borrow_mut().update()?;\n                match terminal_data.command {\n                    Some(command) => self.command.borrow_mut().set(command)?,\n                    None => (),\n                }")


# ---- specificity: semantics-preserving edits (re-association, equivalent control flow). Every check must stay quiet.
def spec(mid, props, path, old, new, occ=0, note=""):
    for p_ in props:
        M.append(dict(id="%s__%s" % (mid, p_), prop=p_, path=path, old=old, new=new, occ=occ, note="SPECIFICITY: must NOT be flagged. " + note))

spec("s01_pid_sum_reordered", ["C04", "C05"], CTRL, "self.kvals.kp * error + self.kvals.ki * self.int_error + self.kvals.kd * drv_error", "self.kvals.kd * drv_error + self.kvals.ki * self.int_error + self.kvals.kp * error")
spec("s02_pid_trapezoid_reassociated", ["C04"], CTRL, "let int_error_addend = delta_time * (prev_error.value + error) / 2.0;", "let int_error_addend = (prev_error.value + error) / 2.0 * delta_time;")
spec("s03_integral_reassociated", ["C10", "C05"], MATH, "        let value_addend = Quantity::from(output.time - prev_output.time)\n            * (prev_output.value + output.value)\n            / Quantity::dimensionless(2.0);", "        let value_addend = (prev_output.value + output.value) / Quantity::dimensionless(2.0)\n            * Quantity::from(output.time - prev_output.time);")
spec("s04_terminal_mean_halves", ["C09", "C08", "C16"], LIB, "(addends[0].assume_init() + addends[1].assume_init()) / 2.0,", "addends[0].assume_init() / 2.0 + addends[1].assume_init() / 2.0,")
spec("s05_invert_halves", ["C08"], DEV, "let new_state = (state1 - state2) / 2.0;", "let new_state = state1 / 2.0 - state2 / 2.0;")
spec("s06_gear_reassociated", ["C08"], DEV, "let newstate2 = (x_plus_r_y * self.ratio) / r_squared_plus_1;", "let newstate2 = x_plus_r_y / r_squared_plus_1 * self.ratio;")
spec("s07_cpid_trapezoid_reassociated", ["C11", "C20"], CTRL, "let error_int_addend = (update_0.error + error) / 2.0 * delta_time;", "let error_int_addend = (update_0.error + error) * delta_time / 2.0;")
spec("s08_ewma_incremental_form", ["C12", "C05"], CTRL, "            prev_value.value * (Quantity::dimensionless(1.0) - lambda) + output.value * lambda;", "            prev_value.value + (output.value - prev_value.value) * lambda;", note="algebraically equal; rounding differs; exact for lambda in {0,1}? (lambda=1: prev+(x-prev) may differ from x by one rounding)")
spec("s09_ma_weights_reverse", ["C12"], CTRL, "        for i in 0..self.input_values.len() {\n            value += self.input_values[i].value.clone() * weights[i];\n        }", "        for i in (0..self.input_values.len()).rev() {\n            value += self.input_values[i].value.clone() * weights[i];\n        }")
spec("s10_datum_add_max", ["C03", "C08"], DATUM, "    fn add(self, other: Self) -> Datum<O> {\n        let output_value = self.value + other.value;\n        let output_time = if self.time >= other.time {\n            self.time\n        } else {\n            other.time\n        };", "    fn add(self, other: Self) -> Datum<O> {\n        let output_value = self.value + other.value;\n        let output_time = core::cmp::max(self.time, other.time);")
spec("s11_connect_order_swapped", ["C09"], LIB, "    term1.borrow_mut().disconnect();\n    term2.borrow_mut().disconnect();", "    term2.borrow_mut().disconnect();\n    term1.borrow_mut().disconnect();")
spec("s12_axle_mean_mul_reciprocal", ["C08"], DEV, "            datum /= count as f32;", "            datum *= 1.0 / count as f32;", note="one extra rounding")
spec("s13_derivative_via_seconds", ["C10"], MATH, "            (output.value - prev_output.value) / Quantity::from(output.time - prev_output.time);", "            (output.value - prev_output.value) * (Quantity::dimensionless(1.0) / Quantity::from(output.time - prev_output.time));", note="one extra rounding")
spec("s14_latest_ge", ["C02", "C03"], STREAMS, "                        if gotten.time > thing.time {", "                        if gotten.time >= thing.time {", note="tie-breaking among equally new candidates is not fixed by the property")
spec("s15_settable_set_clone_order", ["C15"], LIB, "        self.impl_set(value.clone())?;\n        let data = self.get_settable_data_mut();\n        data.last_request = Some(value);", "        let keep = value.clone();\n        self.impl_set(value)?;\n        let data = self.get_settable_data_mut();\n        data.last_request = Some(keep);")


def sh(cmd, cwd=None, timeout=3600):
    return subprocess.run(cmd, cwd=cwd, shell=True, stdout=subprocess.PIPE, stderr=subprocess.STDOUT, text=True, timeout=timeout)


def apply(m):
    p = os.path.join(REPO, m["path"])
    s = open(p).read()
    n = s.count(m["old"])
    if n == 0:
        return "old text not found"
    idx = -1
    for _ in range(m["occ"] + 1):
        idx = s.find(m["old"], idx + 1)
        if idx < 0:
            return "occurrence %d not found" % m["occ"]
    s = s[:idx] + m["new"] + s[idx + len(m["old"]):]
    open(p, "w").write(s)
    return None


def main():
    only = None
    tests = "--tests" in sys.argv
    tier = "quick"
    if "--only" in sys.argv:
        only = sys.argv[sys.argv.index("--only") + 1]
    if "--tier" in sys.argv:
        tier = sys.argv[sys.argv.index("--tier") + 1]
    if sh("git status --porcelain -- src", cwd=REPO).stdout.strip():
        print("refusing: /repo/src has uncommitted changes")
        sys.exit(2)
    results = []
    for m in M:
        if only and not (m["id"].startswith(only) or m["prop"] == only):
            continue
        err = apply(m)
        row = dict(id=m["id"], prop=m["prop"], note=m["note"])
        try:
            if err:
                row["result"] = "NOT-APPLIED: " + err
            else:
                if tests:
                    t = sh("cargo test --workspace --no-fail-fast --offline 2>&1 | grep -E '^test result|error(\\[|:)' ", cwd=REPO)
                    row["tests_pass"] = ("FAILED" not in t.stdout and "error" not in t.stdout and "failed" not in t.stdout.replace("0 failed", ""))
                t0 = time.time()
                r = sh("VERIF_EVIDENCE_DIR=/tmp/muttest-evidence python3 check.py %s --tier %s" % (m["prop"], tier), cwd=V)
                row["exit"] = r.returncode
                row["wall"] = round(time.time() - t0, 1)
                vio = [l for l in r.stdout.splitlines() if l.startswith("VIOLATION") or l.strip().startswith("signature=")]
                row["violations"] = vio[:4]
                row["result"] = "CAUGHT" if r.returncode == 1 else ("MISSED" if r.returncode == 0 else "HARNESS-ERROR")
                if m["note"].startswith("SPECIFICITY"):
                    row["result"] = {"CAUGHT": "FALSE-ALARM", "MISSED": "QUIET-OK"}.get(row["result"], row["result"])
                if r.returncode == 2:
                    row["tail"] = r.stdout[-800:]
        finally:
            sh("git checkout -- .", cwd=REPO)
        print(json.dumps(row), flush=True)
        results.append(row)
    caught = sum(1 for r in results if r.get("result") in ("CAUGHT", "QUIET-OK"))
    print("SUMMARY caught=%d of %d" % (caught, len(results)))
    missed = [r["id"] for r in results if r.get("result") not in ("CAUGHT", "QUIET-OK")]
    print("NOT CAUGHT:", missed)


if __name__ == "__main__":
    try:
        main()
    finally:
        # the harness binaries were last built against a mutated /repo: rebuild them from the restored tree
        subprocess.run("bash /verif/tools/setup.sh >/dev/null 2>&1", shell=True)
