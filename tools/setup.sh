#!/bin/bash
# Builds every harness binary offline from files on disk (cargo registry cache in the image).
set -e
export CARGO_NET_OFFLINE=true
cd /verif/sim && cargo build --release --offline
cd /verif/shuttle && cargo build --release --offline
for v in /verif/variants/*/; do
  if [ -f "$v/Cargo.toml" ]; then (cd "$v" && cargo build --release --offline); fi
done
if [ -d /verif/callers/nostd ]; then (cd /verif/callers/nostd && cargo build --release --offline); fi
if [ -d /verif/miri ]; then
  (cd /verif/miri && MIRIFLAGS="" cargo +nightly miri setup >/dev/null 2>&1 || true)
fi
echo setup done
