#!/usr/bin/env python3
"""Driver for the rrtk deterministic-simulation checks.

  python3 check.py <property> [--tier quick|thorough] [--replay FILE]

exit 0  property held on everything explored (KNOWN-FINDING lines may be printed)
exit 1  "VIOLATION property=<id> replay=<path>" printed for each unlisted violation
exit 2  harness error (build failure, non-reproducing replay, reach probe at zero)

Honours VERIF_SEED (default 1) and VERIF_TIER. Rebuilds from /repo's working tree.
"""
import json
import os
import shutil
import subprocess
import sys
import time

VERIF = os.path.dirname(os.path.abspath(__file__))
SIM_DIR = os.path.join(VERIF, "sim")
BIN = os.path.join(VERIF, "target", "main", "release", "rrtk-sim")
EVID = os.environ.get("VERIF_EVIDENCE_DIR") or os.path.join(VERIF, "evidence")
REPLAYS = os.path.join(VERIF, "replays")
KNOWN = os.path.join(VERIF, "known_findings.jsonl")

ENV = dict(os.environ)
ENV["CARGO_NET_OFFLINE"] = "true"


def harness_error(msg):
    print("HARNESS-ERROR: " + msg, flush=True)
    sys.exit(2)


def run(cmd, cwd=None, env=None, timeout=None):
    """Run to completion. With a timeout: the whole process group is killed when it expires and the
    result has returncode 124 and a TIMEOUT line (a child that never returns must not hang the check)."""
    if timeout is None:
        return subprocess.run(cmd, cwd=cwd, env=env or ENV, stdout=subprocess.PIPE,
                              stderr=subprocess.STDOUT, text=True)
    import signal
    p = subprocess.Popen(cmd, cwd=cwd, env=env or ENV, stdout=subprocess.PIPE, stderr=subprocess.STDOUT, text=True,
                         start_new_session=True)
    try:
        out, _ = p.communicate(timeout=timeout)
        return subprocess.CompletedProcess(cmd, p.returncode, out, None)
    except subprocess.TimeoutExpired:
        try:
            os.killpg(p.pid, signal.SIGKILL)
        except ProcessLookupError:
            pass
        out, _ = p.communicate()
        return subprocess.CompletedProcess(cmd, 124, (out or "") + "\nTIMEOUT after %d s (panicked: did not finish)\n" % timeout, None)


def build_main():
    r = run(["cargo", "build", "--release", "--offline"], cwd=SIM_DIR)
    if r.returncode != 0:
        print(r.stdout[-6000:])
        harness_error("the simulator does not build against /repo's working tree")


def load_known():
    out = []
    if os.path.exists(KNOWN):
        for line in open(KNOWN):
            line = line.strip()
            if line and not line.startswith("#"):
                out.append(json.loads(line))
    return out


def known_match(known, prop, signature):
    for k in known:
        if k.get("status") == "finding" and k.get("property") == prop and k.get("signature") == signature:
            return k
    return None


# reach probes that must be non-zero in a batch (otherwise the batch is not a pass)
REQUIRED_PROBES = {
    "C16": ["nary_pattern_evaluated", "axle_constructed"],
    "C17": ["last_handle_dropped"],
    "C15": ["set_rejected", "set_rejected_while_following", "set_time_after_clock_moved", "update_while_following", "adapter_get", "motion_profile_adapter_get", "call_on_ticking_clock", "history_touches_shared_clock", "adapter_call_while_caller_views_clock"],
    "C02": ["two_different_errors", "nary_leading_absent", "equivalence_checked", "noncommutative_payload_combined", "read_while_inputs_borrowed"],
    "C08": ["both_sides_present", "one_sided", "axle_partial_presence", "diff_equal_all_present", "diff_waits_for_data",
            "teeth_ratio_observed"],
    "C09": ["reconnect_same_pair", "connect_steals_both", "connect_steals_one", "disconnect_unlinked", "link_op_refused_by_live_borrow", "read_through_own_mutable_guard", "write_while_partner_mutably_borrowed"],
    "C13": ["relay_competing_commands", "newest_not_at_side1", "relayed_two_hops", "device_pulls_followed_command"],
    "C20": ["actuator_sees_nothing", "pid_wrapper_fed", "pid_wrapper_drives_motor", "inner_writes_terminal_from_update", "encoder_terminal_follows_getter"],
    "C04": ["time_shift_twin", "scaling_twin", "present_after_reset", "recovery_checked", "composed_twin"],
    "C05": ["err_then_2_present", "present_after_reset", "absent_deletion_twin", "recovery_checked"],
    "C10": ["time_shift_twin", "misdim_panic", "err_then_2_present", "composed_twin"],
    "C11": ["set_same_twin", "present_after_reset"],
    "C12": ["variant_twin", "ma_multi_sample_window", "ewma_first_sample"],
}

# coverage spaces that a batch must reach completely (enumerated by run index), per property
_C02 = {}
for _k in ("sum.f", "prod.f", "latest.f"):
    for _n in range(1, 6):
        _C02["C02.cat:%s:%d" % (_k, _n)] = 4 ** _n            # every {E1,E2,absent,present} assignment, N = 1..5
# second enumerated block (comb.rs ENUM2): every other combinator x every category assignment
for _k, _t in (("sum2.f", "FF"), ("prod2.f", "FF"), ("diff.f", "FF"), ("quot.f", "FF"), ("exp.f", "FF"),
               ("sum2.q", "QQ"), ("prod2.q", "QQ"), ("diff.q", "QQ"), ("quot.q", "QQ"),
               ("and", "BB"), ("or", "BB"), ("not", "B"), ("if.f", "BF"), ("if.b", "BB"), ("if.q", "BQ"),
               ("ifelse.f", "BFF"), ("ifelse.q", "BQQ"), ("n2e.f", "F"), ("n2e.q", "Q"), ("n2v.f", "F"), ("n2v.b", "B"),
               ("n2v.q", "Q"), ("expirer.f", "F"), ("expirer.b", "B"), ("expirer.q", "Q"),
               ("latest.b", "B"), ("latest.b", "BB"), ("latest.b", "BBB"), ("latest.q", "Q"), ("latest.q", "QQ"),
               ("latest.q", "QQQ"), ("sum.q", "Q"), ("sum.q", "QQ"), ("sum.q", "QQQ"), ("prod.q", "Q"), ("prod.q", "QQ"),
               ("prod.q", "QQQ")):
    _n = 1
    for _c in _t:
        _n *= 5 if _c == "B" else 4
    _C02["C02.cat:%s:%d" % (_k, len(_t))] = _n
REQUIRED_CELLS = {
    "C02": _C02,
    "C09": {"C09": 3590},            # every (reachable matching, connect/disconnect) pair on 2..6 terminals
    "C16": {"C16.nary": 1020, "C16.axle": 9, "C16.terminal": 6},
}

RULES = {
    "memory": ("(a) native with scratch arrays poisoned (--cfg rrtk_verif): plans sweeping SumStream/ProductStream arity 1..8 x absent "
               "patterns (enumerated by run index: cells C16.nary of 1020), terminal own/partner presence (C16.terminal of 6), "
               "Axle<0..8>::new + reads + updates (C16.axle of 9), judged by the C02/C08/C09 oracles; the same family interpreted "
               "by Miri without the hook (real uninitialised memory). (b) forbid(unsafe_code) programs: 11 accessors x {scope end, "
               "move out of Box} with a live link, plus controls, one Miri process each. distinct = plan-history hash (a) + number of "
               "distinct (accessor, crash kind, seed) shapes interpreted (b)."),
    "refs": ("(a) each case is one seeded history (<= 12 ops + final drops) of clone / drop / to_dyn! / borrow+read / "
             "borrow_mut+write-unique over one of the six Reference variants with a drop-tracking payload, run both from a "
             "crate without cargo features and from one that declares alloc/std; non-trivial = contains a to_dyn!; distinct = "
             "hash of (variant, op) sequence. (b) each case is one shuttle-scheduled execution of 2..8 threads x 1..6 ops "
             "(increment with a scheduling point inside the borrow, unique-valued register write, register read) over "
             "References built from one shared Arc<Mutex>/Arc<RwLock>; distinct = hash of the order in which critical sections "
             "were entered, counted with a set. distinct_nontrivial = (a) + (b)."),
    "settable": ("each case is one seeded op history over four settables (user motor relying on the trait defaults, "
                 "ConstantGetter, Terminal state, Terminal command), their followed getters, a scripted clock (jumps forwards "
                 "and backwards, errors) and a GetterFromHistory adapter in its four constructor forms over a recording history. "
                 "Non-trivial: a set was rejected, an update ran while following, or the adapter was read; distinct = hash of the "
                 "(op, settable) sequence, counted with a set."),
    "comb": ("each case is one seeded plan: a DAG (depth <= 3) of real rrtk combinators over scripted f32 / bool / Quantity "
             "leaf sensors and clocks, and an op list that re-scripts leaves (present with older/equal/newer stamps, absent, "
             "E1, E2) and clocks (before/at/after expiry, error); every node is read after every op and judged against a "
             "table-driven model fed with its own inputs' outcomes. Non-trivial: some node input was absent or an error; "
             "distinct = hash of the sequence of (node, input-category tuple, timestamp-order class), counted with a set. "
             "cells_reached counts distinct (kind, arity, category tuple, order class, expiry class) cells."),
    "mixed": ("C03 rides on three worlds: combinator DAGs (2/4 of the runs), device graphs (1/4) and the Datum operator "
              "layer (1/4; operator_layer_evaluations reported separately, see DESIGN 5 C03). Non-trivial and distinct as "
              "in those worlds."),
    "device": ("each case is one seeded plan: an arena of real devices / wrappers / free terminals (header) and an op list "
               "(connect, disconnect, set state / command with unique skewed timestamps, update one device, inner-object "
               "faults) executed on the real rrtk device graph; every terminal is read after every op. A run is non-trivial "
               "when it contains at least one connect; distinct = distinct hash of the sequence of (op kind, link-matching "
               "class) over the run, counted with a set."),
    "node": ("each case is one seeded plan: a header (node kind, gains/window/units) and an op list "
             "(scripted leaf-sensor outcomes present/absent/E1/E2, update, extra reads, command/follow ops) "
             "executed on the real rrtk stream. A run is non-trivial when it contains at least one reset event or "
             "reaches a model state with history (>= 2 samples); distinct = distinct hash of the sequence of "
             "(node kind, op category, model-state class) over the whole run, counted with a set."),
}

COMPONENTS = {
    "memory": {
        "real": ["SumStream/ProductStream<1..8>::get", "Terminal state/command/combined reads", "Axle<0..8>::new/update",
                 "all 11 terminal accessors of devices and wrappers", "connect/disconnect"],
        "stub": ["leaf getters", "inner motor/encoder of wrappers"],
    },
    "refs": {
        "real": ["Reference (all six variants)", "ReferenceUnsafe::clone/borrow/borrow_mut", "Borrow/BorrowMut Deref", "to_dyn!",
                 "rc_ref_cell_reference / arc_mutex_reference / arc_rw_lock_reference"],
        "stub": ["shuttle::sync::{Arc,Mutex,RwLock} stand in for std's under --cfg rrtk_verif_shuttle (schedules only)",
                 "drop-tracking payload", "register model / Wing-Gong checker"],
    },
    "settable": {
        "real": ["Settable default methods (set/follow/stop_following/update_following_data/get_last_request)", "SettableData",
                 "ConstantGetter", "Terminal (both Settable impls, Updatable)", "GetterFromHistory (all constructors, set_delta, "
                 "set_time, get, update)", "TimeGetterFromGetter", "NoneToError"],
        "stub": ["FaultyMotor (impl_set accept/reject)", "followed getters", "SimClock", "RecordingHistory", "reference model"],
    },
    "comb": {
        "real": ["SumStream<1..8>", "ProductStream<1..8>", "Latest<1..8>", "Sum2", "Product2", "DifferenceStream",
                 "QuotientStream", "ExponentStream", "IfStream", "IfElseStream", "Expirer", "NoneToError", "NoneToValue",
                 "AndStream", "OrStream", "NotStream", "Reference (RcRefCell)"],
        "stub": ["leaf sensors", "clocks", "table-driven outcome model"],
    },
    "mixed": {
        "real": ["all combinators", "Terminal/connect/devices", "Datum operator impls", "replace_if_* helpers", "latest()"],
        "stub": ["leaf sensors", "clocks", "operator nodes (harness-defined user streams)"],
    },
    "device": {
        "real": ["Terminal", "connect", "Terminal::disconnect", "Invert", "GearTrain (ratio, Quantity ratio, tooth list)",
                 "Axle<0..8>", "Differential (4 trust modes)", "ActuatorWrapper", "GetterStateDeviceWrapper", "PIDWrapper",
                 "CommandPID (inside PIDWrapper and as twin)", "ConstantGetter", "Datum operators used by devices"],
        "stub": ["inner motors (Settable<TerminalData>/Settable<f32>, scripted accept/reject)", "inner encoder getter",
                 "reference models (matching, projection, relay)"],
    },
    "node": {
        "real": ["PIDControllerStream", "CommandPID", "EWMAStream<f32>", "EWMAStream<Quantity>",
                 "MovingAverageStream<f32>", "MovingAverageStream<Quantity>", "IntegralStream", "DerivativeStream",
                 "AccelerationToState", "VelocityToState", "PositionToState", "FloatToQuantity", "QuantityToFloat",
                 "FreezeStream", "Reference (RcRefCell)", "Settable::set/follow/update_following_data"],
        "stub": ["leaf Sensor<T> getters (scripted outcome)", "followed command getter", "reference models"],
    },
}

ASSUMPTIONS = [
    "reference models in /verif/sim/src (read from the property statements) are the specification",
    "forward-error bound of DESIGN.md section 2.4 (8x a running first-order bound) separates rounding from defects",
    "rustc/std float arithmetic is IEEE-754 binary32; std powf is accurate to a few ulp",
    "a clean batch is evidence, not proof: schedules/histories are sampled by a seeded PRNG, not enumerated",
]


def write_evidence(prop, tier, seed, world, res, violations, known_hits, wall, extra=None):
    os.makedirs(EVID, exist_ok=True)
    cov = {
        "evaluations": res["runs"],
        "distinct_nontrivial": res["distinct_nontrivial"],
        "rule": RULES.get(world, world),
        "samples": res["samples"][:3],
        "nontrivial_runs": res["nontrivial_runs"],
        "runs_per_hour": int(res["runs"] / max(res["wall_batch_s"], 1e-6) * 3600),
        "simulated_seconds_covered": res["sim_seconds"],
        "faults_fired": res["faults_fired"],
        "reach_probes": res["reach_probes"],
        "value_comparisons": res["counts"].get("value_compared", 0),
        "operator_layer_evaluations": res["counts"].get("operator_layer_evaluations", 0),
        "ill_conditioned_skipped": res["counts"].get("ill_conditioned_skipped", 0),
        "cells_reached": res["cells_reached"],
        "cells_by_space": res.get("cells_by_space", {}),
        "cells_total": REQUIRED_CELLS.get(prop, {}),
        "trace_digest": res["trace_xor"] + res["trace_sum"],
        "components": COMPONENTS.get(world, {}),
        "known_findings_reproduced": known_hits,
        "failing_runs": res["failing_runs"],
        "workers": res["workers"],
        "exhaustive": False,
    }
    if extra:
        cov.update(extra)
    ev = {
        "property_id": prop,
        "tier": tier,
        "seed": seed,
        "level": "exploration",
        "coverage": cov,
        "assumptions": ASSUMPTIONS,
        "wall_s": round(wall, 3),
        "violations": violations,
    }
    with open(os.path.join(EVID, prop + ".json"), "w") as f:
        json.dump(ev, f, indent=1)


def replay_reproduces(path):
    r = run([BIN, "replay", path])
    return r.returncode == 1, r.stdout


def sim_collect(prop, tier, seed, binary=None, tag="", nruns=None, note=None):
    """Run one simulator batch; replay every minimised failure in a fresh process; classify."""
    binary = binary or BIN
    tmpdir = os.path.join(REPLAYS, "tmp", "%s%s-%d" % (prop, tag, os.getpid()))
    shutil.rmtree(tmpdir, ignore_errors=True)
    os.makedirs(tmpdir, exist_ok=True)
    out = os.path.join(tmpdir, "result.json")
    cmd = [binary, "batch", "--prop", prop, "--tier", tier, "--seed", str(seed), "--out", out,
           "--replay-dir", tmpdir, "--workers", str(os.cpu_count() or 16)]
    runs = os.environ.get("VERIF_RUNS")
    if runs:
        cmd += ["--runs", runs]
    elif nruns:
        cmd += ["--runs", str(nruns)]
    r = run(cmd)
    if r.returncode < 0 or r.returncode in (134, 139):
        # the process was killed (abort / segfault): a run corrupted memory. Bisect by run index.
        return bisect_death(prop, tier, seed, binary, r)
    if r.returncode not in (0, 1) or not os.path.exists(out):
        print(r.stdout[-4000:])
        harness_error("simulator batch for %s died (exit %s)" % (prop, r.returncode))
    res = json.load(open(out))
    known = load_known()
    violations = 0
    known_hits = []
    lines = []
    for f in res["failures"]:
        rr = run([binary, "replay", f["replay"]])
        if rr.returncode != 1:
            print(rr.stdout[-2000:])
            harness_error("minimised replay %s does not reproduce %s in a fresh process" % (f["replay"], f["signature"]))
        k = known_match(known, prop, f["signature"])
        if k:
            known_hits.append(f["signature"])
            lines.append("KNOWN-FINDING: property=%s %s [%s]" % (prop, k.get("what", ""), f["signature"]))
            continue
        violations += 1
        dest_dir = os.path.join(REPLAYS, prop)
        os.makedirs(dest_dir, exist_ok=True)
        dest = os.path.join(dest_dir, tag.strip("-") + os.path.basename(f["replay"]))
        shutil.copyfile(f["replay"], dest)
        if note:
            body = open(dest).read()
            open(dest, "w").write("# %s\n" % note + body)
        lines.append("VIOLATION property=%s replay=%s" % (prop, dest))
        lines.append("  signature=%s detail=%s (run %d, %d ops minimised to %d)" % (
            f["signature"], f["detail"], f["run"], f["ops_original"], f["ops_minimised"]))
    missing = [p for p in REQUIRED_PROBES.get(prop, []) if res["reach_probes"].get(p, 0) == 0]
    if not runs and not nruns:
        for space, total in REQUIRED_CELLS.get(prop, {}).items():
            got = res.get("cells_by_space", {}).get(space, 0)
            if got != total:
                missing.append("cells %s %d/%d" % (space, got, total))
    shutil.rmtree(tmpdir, ignore_errors=True)
    return dict(res=res, lines=lines, violations=violations, known_hits=known_hits, missing=missing)


def dies(rc):
    return rc < 0 or rc in (134, 139)


def bisect_death(prop, tier, seed, binary, first):
    """A batch process was killed by a signal. Find the single run that kills a child process
    on its own; its plan is the replay file and replaying it must kill the child again."""
    total = int(os.environ.get("VERIF_RUNS") or 0)
    if not total:
        # ask the binary for its default run count through a tiny batch
        total = {"quick": 200000, "thorough": 25000000}[tier]

    def batch(lo, hi):
        out = os.path.join(REPLAYS, "tmp", "bisect-%d.json" % os.getpid())
        os.makedirs(os.path.dirname(out), exist_ok=True)
        r = run([binary, "batch", "--prop", prop, "--tier", tier, "--seed", str(seed), "--out", out, "--replay-dir",
                 os.path.dirname(out), "--workers", "1", "--from", str(lo), "--to", str(hi)])
        return r.returncode

    lo, hi = 0, min(total, 4096)
    while hi <= total and not dies(batch(lo, hi)):
        if hi == total:
            print(first.stdout[-2000:])
            harness_error("batch for %s was killed (exit %s) but no prefix of runs reproduces it single-threaded" % (prop, first.returncode))
        hi = min(total, hi * 4)
    # smallest hi such that [0, hi) dies
    a, b = 0, hi
    while b - a > 1:
        mid = (a + b) // 2
        if dies(batch(0, mid)):
            b = mid
        else:
            a = mid
    culprit = b - 1
    dest_dir = os.path.join(REPLAYS, prop)
    os.makedirs(dest_dir, exist_ok=True)
    dest = os.path.join(dest_dir, "%s_process_death-seed%d-run%d.plan" % (prop, seed, culprit))
    sig = "%s|process_death|memory_corruption" % prop
    g = run([binary, "genplan", "--prop", prop, "--tier", tier, "--seed", str(seed), "--run", str(culprit), "--expect", sig])
    open(dest, "w").write("# the simulator process is killed (abort/segfault) while executing this plan\n" + g.stdout)
    rr = run([binary, "replay", dest])
    if dies(rr.returncode):
        lines = ["VIOLATION property=%s replay=%s" % (prop, dest),
                 "  signature=%s detail=executing run %d kills the process (exit %s): memory corruption / undefined behaviour reached from safe calls" % (sig, culprit, rr.returncode)]
    else:
        # the run does not kill a fresh process on its own; does it at least violate an oracle?
        g2 = run([binary, "genplan", "--prop", prop, "--tier", tier, "--seed", str(seed), "--run", str(culprit)])
        open(dest, "w").write(g2.stdout)
        r2 = run([binary, "replay", dest])
        sigs = [l.split("signature=")[1].split(" detail=")[0] for l in r2.stdout.splitlines() if l.startswith("REPRODUCED") and ("signature=%s|" % prop) in l]
        if r2.returncode != 1 or not sigs:
            # no single run dies or fails on its own: the heap is corrupted by the runs together. The
            # single-worker batch over runs 0..=culprit is deterministic, so THAT is the replay: it must
            # kill the process again, in a fresh process, now.
            if not dies(batch(0, culprit + 1)):
                harness_error("runs 0..=%d killed a single-worker batch once but not twice (%s)" % (culprit, dest))
            sig = "%s|process_death|memory_corruption_across_runs" % prop
            dest = os.path.join(dest_dir, "%s_process_death-seed%d-runs0to%d.range" % (prop, seed, culprit))
            open(dest, "w").write("# the simulator process is killed (abort / segfault) while executing runs 0..=%d of this batch in ONE worker;\n"
                                  "# no single run of them does it alone (memory corrupted in one run, touched in a later one). Replay:\n"
                                  "#   %s batch --prop %s --tier %s --seed %d --workers 1 --from 0 --to %d   (must be killed by a signal)\n"
                                  "binary=%s\nprop=%s\ntier=%s\nseed=%d\nfrom=0\nto=%d\nexpect=%s\n" % (culprit, binary, prop, tier, seed, culprit + 1, binary, prop, tier, seed, culprit + 1, sig))
            lines = ["VIOLATION property=%s replay=%s" % (prop, dest),
                     "  signature=%s detail=runs 0..=%d kill a single-worker simulator process (exit %s): memory corruption / undefined behaviour reached from safe calls" % (sig, culprit, first.returncode)]
            res = dict(runs=culprit + 1, distinct_nontrivial=2, samples=[g.stdout], nontrivial_runs=culprit + 1, wall_batch_s=1.0, sim_seconds=0.0,
                       faults_fired={}, reach_probes={}, counts={}, cells_reached=0, trace_xor="", trace_sum="", failing_runs=1, workers=1)
            return dict(res=res, lines=lines, violations=1, known_hits=[], missing=[])
        open(dest, "w").write(g2.stdout + "".join("expect=%s\n" % x for x in sigs[:1]))
        lines = ["VIOLATION property=%s replay=%s" % (prop, dest),
                 "  signature=%s detail=run %d violates this oracle and, inside a batch, goes on to corrupt the heap and kill the process (exit %s)" % (sigs[0], culprit, first.returncode)]
    res = dict(runs=culprit + 1, distinct_nontrivial=2, samples=[g.stdout], nontrivial_runs=culprit + 1, wall_batch_s=1.0, sim_seconds=0.0,
               faults_fired={}, reach_probes={}, counts={}, cells_reached=0, trace_xor="", trace_sum="", failing_runs=1, workers=1)
    return dict(res=res, lines=lines, violations=1, known_hits=[], missing=[])


def finish(prop, tier, seed, lines, violations, known_n, runs, distinct, wall, missing=None):
    for l in lines:
        print(l)
    print("%s %s seed=%d runs=%d distinct_nontrivial=%d violations=%d known=%d wall=%.1fs" % (
        prop, tier, seed, runs, distinct, violations, known_n, wall))
    if violations:
        sys.exit(1)
    if missing:
        harness_error("reach probes at zero: %s" % ", ".join(missing))
    sys.exit(0)


def sim_batch(prop, tier, seed, world):
    t0 = time.time()
    build_main()
    c = sim_collect(prop, tier, seed)
    lines = list(c["lines"])
    violations = c["violations"]
    known_hits = list(c["known_hits"])
    # the same batch through the simulator linked against rrtk as `cargo build --release` ships it by
    # default (default features, optimised, no debug assertions, no overflow or dimension checks):
    # code that only exists, or only disappears, in that configuration (a side effect inside a
    # debug_assert!, an assertion that only fires where checks are off) shows under the same oracles
    extra = {}
    for build, tag, what, div in EXTRA_PASSES:
        vbin = variant_binary(build)
        if not vbin or os.environ.get("VERIF_NO_SHIPPED"):
            continue
        n = None if tier == "quick" else max(int(c["res"]["runs"]) // div, 1)
        c2 = sim_collect(prop, tier, seed, binary=vbin, tag=tag, nruns=n,
                         note="found by the simulator built against rrtk as %s: replay with "
                              "/verif/target/variants/%s/release/rrtk-sim-%s replay <this file>" % (what, build, build))
        lines += c2["lines"]
        violations += c2["violations"]
        known_hits += [k for k in c2["known_hits"] if k not in known_hits]
        extra[tag.strip("-") + "_configuration_pass"] = {
            "build": "variants/%s (%s)" % (build, what),
            "evaluations": c2["res"]["runs"], "distinct_nontrivial": c2["res"]["distinct_nontrivial"],
            "failing_runs": c2["res"]["failing_runs"], "trace_digest": c2["res"]["trace_xor"] + c2["res"]["trace_sum"]}
    wall = time.time() - t0
    write_evidence(prop, tier, seed, world, c["res"], violations, known_hits, wall, extra)
    finish(prop, tier, seed, lines, violations, len(known_hits), c["res"]["runs"],
           c["res"]["distinct_nontrivial"], wall, c["missing"])


# ---------------------------------------------------------------- C17: Reference

SHUTTLE_DIR = os.path.join(VERIF, "shuttle")
SHUTTLE_BIN = os.path.join(VERIF, "target", "shuttle", "release", "rrtk-shuttle")


def build_shuttle():
    r = run(["cargo", "build", "--release", "--offline"], cwd=SHUTTLE_DIR)
    if r.returncode != 0:
        print(r.stdout[-6000:])
        harness_error("the shuttle harness does not build against /repo's working tree (--cfg rrtk_verif_shuttle)")


def check_c17(tier, seed):
    prop = "C17"
    t0 = time.time()
    build_main()
    # (a) clone / drop / to_dyn / borrow histories: feature-less calling crate ...
    a = sim_collect(prop, tier, seed)
    lines = list(a["lines"])
    violations = a["violations"]
    # ... and a calling crate that declares and enables features named alloc and std
    a2 = None
    vbin = variant_binary("std_nodim")
    if vbin:
        a2 = sim_collect(prop, tier, seed, binary=vbin, tag="-featured")
        lines += a2["lines"]
        violations += a2["violations"]
    # ... and rrtk itself built WITHOUT std (alloc + libm): the pointer and the Rc variant exist there and
    # to_dyn! must convert them (the macro has a separate expansion for that build)
    vbin3 = variant_binary("libm_dim")
    if vbin3:
        a3 = sim_collect(prop, tier, seed, binary=vbin3, tag="-alloc-only", nruns=None if tier == "quick" else 400000,
                         note="found by the simulator built against rrtk with features alloc,libm (no std): replay with "
                              "/verif/target/variants/libm_dim/release/rrtk-sim-libm_dim replay <this file>")
        lines += a3["lines"]
        violations += a3["violations"]
    # ... and a calling crate that is #![no_std] itself while rrtk is built with std: to_dyn! must expand
    # and behave there too (an expansion that names `std::` does not even compile)
    nd = os.path.join(VERIF, "callers", "nostd")
    rn = run(["cargo", "run", "--release", "--offline"], cwd=nd, timeout=1800)
    if rn.returncode != 0 or "DONE nostd-caller" not in rn.stdout:
        sig = "C17|to_dyn_no_std_caller|" + ("compile" if "could not compile" in rn.stdout else "run")
        dest_dir = os.path.join(REPLAYS, prop)
        os.makedirs(dest_dir, exist_ok=True)
        dest = os.path.join(dest_dir, "nostd-caller.build")
        what = [l for l in rn.stdout.splitlines() if l.startswith("error") or "panicked" in l]
        open(dest, "w").write("# a #![no_std] calling crate that uses to_dyn! on the Rc and Ptr variants: cd /verif/callers/nostd && cargo run --release --offline\n"
                              "# %s\nexpect=%s\n" % ((what or ["failed"])[0], sig))
        violations += 1
        lines.append("VIOLATION property=%s replay=%s" % (prop, dest))
        lines.append("  signature=%s detail=%s" % (sig, (what or ["failed"])[0][:300]))
    # (b) shuttle-controlled threads
    build_shuttle()
    sdir = os.path.join(REPLAYS, "tmp", "shuttle-%d" % os.getpid())
    shutil.rmtree(sdir, ignore_errors=True)
    os.makedirs(sdir, exist_ok=True)
    out = os.path.join(sdir, "result.json")
    iters, shapes = (250, 16) if tier == "quick" else (6000, 64)
    shuttle_args = ["run", "--seed", str(seed), "--iters", str(iters), "--shapes", str(shapes)]
    sh_timeout = 900 if tier == "quick" else 6 * 3600
    r = run([SHUTTLE_BIN] + shuttle_args + ["--out", out, "--dir", sdir], timeout=sh_timeout)
    if dies(r.returncode) or r.returncode == 124:
        # the scenario corrupted memory and the process was killed: the whole seeded run is the replay
        sig = "C17|schedule|process_death"
        dest_dir = os.path.join(REPLAYS, prop)
        os.makedirs(dest_dir, exist_ok=True)
        dest = os.path.join(dest_dir, "shuttle-death-seed%d.shuttlerun" % seed)
        open(dest, "w").write("# the shuttle scenario process is killed or never finishes (exit %s; 124 = timeout): memory corruption or a lock-free spin reached from safe Reference calls\n"
                              "args=%s\nexpect=%s\n" % (r.returncode, " ".join(shuttle_args), sig))
        r2 = run([SHUTTLE_BIN] + shuttle_args + ["--out", out, "--dir", sdir], timeout=sh_timeout)
        if not (dies(r2.returncode) or r2.returncode == 124):
            harness_error("shuttle run died once (exit %s) but not when repeated" % r.returncode)
        violations += 1
        lines.append("VIOLATION property=%s replay=%s" % (prop, dest))
        lines.append("  signature=%s detail=%s" % (sig, (r.stdout.strip().splitlines() or ["killed"])[-1][:200]))
        sres = {"iters_per_scheduler": iters, "schedulers": 0, "executions": 0, "distinct_interleavings": 0, "contended_executions": 1,
                "linearizability_checked": 0, "wall_s": 0.001, "failures": []}
    elif r.returncode not in (0, 1) or not os.path.exists(out):
        print(r.stdout[-3000:])
        harness_error("shuttle run failed (exit %s)" % r.returncode)
    else:
        sres = json.load(open(out))
    known = load_known()
    for f in sres["failures"]:
        if not f["schedule_file"]:
            continue
        rr = run([SHUTTLE_BIN, "replay", str(f["shape"]), f["schedule_file"]])
        if rr.returncode != 1:
            print(rr.stdout[-2000:])
            harness_error("shuttle schedule %s does not reproduce" % f["schedule_file"])
        sig = "C17|schedule|" + ("conservation" if "conservation" in f["message"] else "linearizability" if "linearizability" in f["message"] else "panic_under_contention")
        k = known_match(known, prop, sig)
        if k:
            lines.append("KNOWN-FINDING: property=%s %s [%s]" % (prop, k.get("what", ""), sig))
            continue
        violations += 1
        dest_dir = os.path.join(REPLAYS, prop)
        os.makedirs(dest_dir, exist_ok=True)
        dest = os.path.join(dest_dir, "shape%d-seed%d-%s" % (f["shape"], seed, os.path.basename(f["schedule_file"])))
        shutil.copyfile(f["schedule_file"], dest)
        lines.append("VIOLATION property=%s replay=%s" % (prop, dest))
        lines.append("  signature=%s shape=%d scheduler=%d message=%s (replay: rrtk-shuttle replay %d %s)" % (
            sig, f["shape"], f["scheduler"], f["message"], f["shape"], dest))
    shutil.rmtree(sdir, ignore_errors=True)
    wall = time.time() - t0
    res = a["res"]
    extra = {
        "shuttle": {k: sres[k] for k in ("iters_per_scheduler", "schedulers", "executions", "distinct_interleavings",
                                         "contended_executions", "linearizability_checked", "wall_s")},
        "interleavings_distinct": sres["distinct_interleavings"],
        "schedules_per_hour": int(sres["executions"] / max(sres["wall_s"], 1e-6) * 3600),
        "featured_crate_runs": a2["res"]["runs"] if a2 else 0,
        "schedulers": ["shuttle RandomScheduler (seeded)", "shuttle PctScheduler depth 1..5 (seeded)"],
    }
    res = dict(res)
    res["runs"] = a["res"]["runs"] + (a2["res"]["runs"] if a2 else 0) + sres["executions"]
    res["distinct_nontrivial"] = a["res"]["distinct_nontrivial"] + sres["distinct_interleavings"]
    write_evidence(prop, tier, seed, "refs", res, violations, a["known_hits"], wall, extra)
    missing = a["missing"]
    if sres["contended_executions"] == 0:
        missing = missing + ["shuttle_contended_executions"]
    finish(prop, tier, seed, lines, violations, len(a["known_hits"]), res["runs"], res["distinct_nontrivial"], wall, missing)


# ---------------------------------------------------------------- C16: memory safety

MIRI_DIR = os.path.join(VERIF, "miri")
DANGLE_SHAPES = [
    "Invert::get_terminal_1", "Invert::get_terminal_2", "GearTrain::get_terminal_1", "GearTrain::get_terminal_2",
    "Axle::get_terminal", "Differential::get_side_1", "Differential::get_side_2", "Differential::get_sum",
    "ActuatorWrapper::get_terminal", "GetterStateDeviceWrapper::get_terminal", "PIDWrapper::get_terminal",
]


def miri_cmd(binname, args):
    return ["cargo", "+nightly", "miri", "run", "--offline", "--bin", binname, "--"] + [str(a) for a in args]


def miri_env():
    e = dict(ENV)
    e["MIRIFLAGS"] = ""
    e.pop("RUSTFLAGS", None)
    return e


def miri_run_many(jobs, workers=None):
    """jobs: list of (key, binname, args). Returns {key: (returncode, output)}; runs in parallel."""
    from concurrent.futures import ThreadPoolExecutor
    # build once first so the parallel interpreters only run
    b = run(["cargo", "+nightly", "miri", "run", "--offline", "--bin", "scratch", "--", "only", "axle", "0"], cwd=MIRI_DIR, env=miri_env())
    if b.returncode != 0 and "Undefined Behavior" not in b.stdout:
        print(b.stdout[-4000:])
        harness_error("the Miri programs do not build / run against /repo's working tree")

    def one(job):
        key, binname, args = job
        r = run(miri_cmd(binname, args), cwd=MIRI_DIR, env=miri_env(), timeout=3600)
        return key, (r.returncode, r.stdout)
    with ThreadPoolExecutor(max_workers=workers or (os.cpu_count() or 16)) as ex:
        return dict(ex.map(one, jobs))


def miri_ub(output):
    return "Undefined Behavior" in output


def write_miri_replay(prop, name, binname, args, sig, note):
    dest_dir = os.path.join(REPLAYS, prop)
    os.makedirs(dest_dir, exist_ok=True)
    dest = os.path.join(dest_dir, name + ".miri")
    with open(dest, "w") as f:
        f.write("# rrtk-miri replay: cd /verif/miri && cargo +nightly miri run --offline --bin %s -- %s\n" % (binname, " ".join(str(a) for a in args)))
        f.write("# %s\n" % note.replace("\n", " "))
        f.write("bin=%s\nargs=%s\nexpect=%s\n" % (binname, " ".join(str(a) for a in args), sig))
    return dest


def miri_replay(path):
    kv = {}
    for line in open(path):
        if "=" in line and not line.startswith("#"):
            k, v = line.strip().split("=", 1)
            kv[k] = v
    r = run(miri_cmd(kv["bin"], kv["args"].split()), cwd=MIRI_DIR, env=miri_env(), timeout=3600)
    print(r.stdout[-3000:])
    return miri_ub(r.stdout) or (r.returncode != 0 and "panicked" in r.stdout)


def scan_accessors():
    """Every public accessor that returns a terminal reference not tied to &self must be in the shape table."""
    import re
    found = []
    for rel in ("src/devices.rs", "src/devices/wrappers.rs"):
        try:
            text = open(os.path.join("/repo", rel)).read()
        except OSError:
            continue
        cur = None
        for line in text.splitlines():
            m = re.match(r"\s*impl<[^>]*>\s+(\w+)<", line)
            if m:
                cur = m.group(1)
            m = re.search(r"pub fn (\w+)\(&self[^)]*\)\s*->\s*&'a RefCell<Terminal<'a, E>>", line)
            if m and cur:
                found.append("%s::%s" % (cur, m.group(1)))
    return found


SAFE_ROUTE_PROBES = [("from_unsafe", ["E0308", "E0277"]), ("into_unsafe", ["E0277"]), ("tuple_ctor", ["E0423", "E0603", "E0616"]),
                     ("unsafe_borrow", ["E0133"]), ("from_ptr_safe", ["E0133"]),
                     ("static_macro", ["E0133"]), ("static_rw_lock_macro", ["E0133"]), ("static_mutex_macro", ["E0133"])]


def check_c16(tier, seed):
    prop = "C16"
    t0 = time.time()
    build_main()
    known = load_known()
    # (a) native, scratch arrays poisoned by the rrtk_verif hook
    a = sim_collect(prop, tier, seed)
    lines = list(a["lines"])
    violations = a["violations"]
    known_hits = list(a["known_hits"])
    # (a) the same family under Miri (real uninitialised memory)
    jobs = []
    if tier == "quick":
        jobs.append(("scratch-sample", "scratch", ["sample", seed, 48]))
    else:
        for i in range(16):
            jobs.append(("scratch-part%d" % i, "scratch", ["part", i, 16]))
    # (b) device-crash shapes
    crashes = [1] if tier == "quick" else [1, 2]
    seeds = [seed] if tier == "quick" else [seed, seed + 1, seed + 2]
    controls = [0, 4, 8] if tier == "quick" else list(range(11))
    for sh in range(11):
        for c in crashes:
            for sd in seeds:
                jobs.append(("dangle-%d-%d-%d" % (sh, c, sd), "dangle", [sh, c, sd]))
    for sh in controls:
        jobs.append(("control-%d" % sh, "dangle", [sh, 0, seed]))
    # ... and orderly teardown after link operations that were refused because a terminal was being read
    for sh in ([2, 9] if tier == "quick" else list(range(11))):
        jobs.append(("control-%d-refused" % sh, "dangle", [sh, 3, seed]))
    # clone / drop / to_dyn! histories of the owning and static Reference variants
    nref = 12 if tier == "quick" else 60
    for part in range(1 if tier == "quick" else 4):
        jobs.append(("refs-%d" % part, "refs", [seed + 1000 * part, nref]))
    results = miri_run_many(jobs)
    miri_cases = 0
    ub_reports = 0
    shapes_run = 0
    for key, (rc, out) in sorted(results.items()):
        if key.startswith("scratch"):
            done = [l for l in out.splitlines() if l.startswith("DONE cases=")]
            if rc == 0 and done:
                miri_cases += int(done[-1].split("=")[1])
                continue
            case = [l for l in out.splitlines() if l.startswith("CASE ")]
            last = case[-1].split() if case else ["CASE", "?", "?", "0"]
            miri_cases += len(case)
            if last[1] == "nary":
                args = ["only", last[2], last[3], last[4]]
            else:
                args = ["only", last[1], last[2]] + ([str(int(last[2]) + 2 * int(last[3]))] if last[1] == "terminal" else [])
                if last[1] == "terminal":
                    args = ["only", "terminal", str(int(last[2]) + 2 * int(last[3]))]
            sig = "C16|miri_ub|scratch:%s" % (last[2] if last[1] == "nary" else last[1])
            what = [l for l in out.splitlines() if "Undefined Behavior" in l or "panicked" in l]
            dest = write_miri_replay(prop, "scratch-%s-seed%d" % ("-".join(args[1:]), seed), "scratch", args, sig, (what or ["failed"])[0])
            rr = run(miri_cmd("scratch", args), cwd=MIRI_DIR, env=miri_env())
            if rr.returncode == 0:
                harness_error("Miri failure in %s does not reproduce with the single case %s" % (key, args))
            ub_reports += 1
            violations += 1
            lines.append("VIOLATION property=%s replay=%s" % (prop, dest))
            lines.append("  signature=%s detail=%s" % (sig, (what or ["failed"])[0].strip()))
        elif key.startswith("refs"):
            done = [l for l in out.splitlines() if l.startswith("DONE cases=")]
            if rc == 0 and done:
                miri_cases += int(done[-1].split("=")[1])
                continue
            case = [l for l in out.splitlines() if l.startswith("CASE ")]
            miri_cases += len(case)
            args = next(j[2] for j in jobs if j[0] == key)
            sig = "C16|miri_ub|reference_histories"
            what = [l for l in out.splitlines() if "Undefined Behavior" in l or "panicked" in l or "memory leaked" in l]
            dest = write_miri_replay(prop, "%s-seed%d" % (key, seed), "refs", args, sig, (what or ["failed"])[0])
            violations += 1
            ub_reports += 1
            lines.append("VIOLATION property=%s replay=%s" % (prop, dest))
            lines.append("  signature=%s detail=%s (last case: %s)" % (sig, (what or ["failed"])[0].strip(), case[-1] if case else "?"))
        elif key.startswith("control"):
            shapes_run += 1
            sh = int(key.split("-")[1])
            if rc != 0:
                refused = key.endswith("-refused")
                sig = "C16|miri_ub|control%s:%s" % ("_after_refused_link_op" if refused else "", DANGLE_SHAPES[sh])
                what = [l for l in out.splitlines() if "Undefined Behavior" in l or ("panicked" in l and "already" not in l)]
                dest = write_miri_replay(prop, "%s-seed%d" % (key, seed), "dangle", [sh, 3 if refused else 0, seed], sig, (what or ["failed"])[0])
                violations += 1
                ub_reports += 1
                lines.append("VIOLATION property=%s replay=%s" % (prop, dest))
                lines.append("  signature=%s detail=%s" % (sig, (what or ["failed"])[0].strip()))
        else:
            shapes_run += 1
            _, sh, c, sd = key.split("-")
            sh, c, sd = int(sh), int(c), int(sd)
            if miri_ub(out):
                ub_reports += 1
                sig = "C16|dangling|%s" % DANGLE_SHAPES[sh]
                what = [l for l in out.splitlines() if "Undefined Behavior" in l][0].strip()
                where = [l.strip() for l in out.splitlines() if l.strip().startswith("-->")]
                k = known_match(known, prop, sig)
                if k:
                    if sig not in known_hits:
                        known_hits.append(sig)
                        lines.append("KNOWN-FINDING: property=%s %s [%s]" % (prop, k.get("what", ""), sig))
                    continue
                dest = write_miri_replay(prop, "dangle-%d-%d-%d" % (sh, c, sd), "dangle", [sh, c, sd], sig, what + " " + (where[0] if where else ""))
                violations += 1
                lines.append("VIOLATION property=%s replay=%s" % (prop, dest))
                lines.append("  signature=%s detail=%s %s" % (sig, what, where[0] if where else ""))
            elif rc != 0:
                print(out[-2000:])
                harness_error("dangle shape %s failed without a Miri UB report" % key)
    # negative compile probe: a crate without `unsafe` that gives to_dyn! an argument performing an unsafe
    # operation must be rejected (E0133); if it builds, the macro wraps caller code in its own unsafe block
    pr = run(["cargo", "build", "--release", "--offline"], cwd=os.path.join(VERIF, "callers", "unsafe_probe"), timeout=1800)
    if pr.returncode == 0:
        sig = "C16|to_dyn_admits_unsafe_argument|compile"
        dest_dir = os.path.join(REPLAYS, prop)
        os.makedirs(dest_dir, exist_ok=True)
        dest = os.path.join(dest_dir, "unsafe-probe.probe")
        open(dest, "w").write("# /verif/callers/unsafe_probe contains no `unsafe` and passes `Reference::from_ptr(p)` to to_dyn!: it must not compile,\n"
                              "# but `cd /verif/callers/unsafe_probe && cargo build --release --offline` succeeded\nexpect=%s\n" % sig)
        violations += 1
        lines.append("VIOLATION property=%s replay=%s" % (prop, dest))
        lines.append("  signature=%s detail=a crate without unsafe obtained a Reference from a raw pointer through to_dyn!" % sig)
    elif "E0133" not in pr.stdout:
        print(pr.stdout[-3000:])
        harness_error("the unsafe probe crate fails to build for another reason than E0133")
    # more negative probes: programs without `unsafe` that try one route each from a raw pointer to a Reference
    # (From / Into from the public unsafe enum, the tuple constructor, the unsafe enum's own borrow, the pointer
    # constructor called without unsafe). Each must be rejected, for the stated reason.
    for pname, codes in SAFE_ROUTE_PROBES:
        pr = run(["cargo", "build", "--release", "--offline", "--bin", pname], cwd=os.path.join(VERIF, "callers", "safe_route_probes"), timeout=1800)
        if pr.returncode == 0:
            sig = "C16|safe_route_to_reference|" + pname
            dest_dir = os.path.join(REPLAYS, prop)
            os.makedirs(dest_dir, exist_ok=True)
            dest = os.path.join(dest_dir, "safe-route-%s.probe" % pname)
            open(dest, "w").write("# /verif/callers/safe_route_probes/src/bin/%s.rs contains no `unsafe` and must not compile, but\n"
                                  "# `cd /verif/callers/safe_route_probes && cargo build --release --offline --bin %s` succeeded\nexpect=%s\n" % (pname, pname, sig))
            violations += 1
            lines.append("VIOLATION property=%s replay=%s" % (prop, dest))
            lines.append("  signature=%s detail=a program without unsafe built a Reference that nothing keeps alive (probe %s compiles)" % (sig, pname))
        elif not any(c in pr.stdout for c in codes):
            print(pr.stdout[-3000:])
            harness_error("safe-route probe %s fails to build for another reason than %s" % (pname, "/".join(codes)))
    # accessors the shape table does not know
    unknown = [x for x in scan_accessors() if x not in DANGLE_SHAPES]
    wall = time.time() - t0
    res = dict(a["res"])
    extra = {
        "cells_by_space": a["res"].get("cells_by_space", {}),
        "cells_total": {"C16.nary": 1020, "C16.axle": 9, "C16.terminal": 6},
        "miri": {"scratch_cases_interpreted": miri_cases, "crash_and_control_shapes_interpreted": shapes_run,
                 "ub_reports": ub_reports, "interpreter_processes": len(jobs)},
        "faults_fired_miri": {"crash_drop": sum(1 for j in jobs if j[1] == "dangle" and j[2][1] == 1),
                              "crash_move": sum(1 for j in jobs if j[1] == "dangle" and j[2][1] == 2)},
    }
    res["runs"] = a["res"]["runs"] + miri_cases + shapes_run
    res["distinct_nontrivial"] = a["res"]["distinct_nontrivial"] + shapes_run
    write_evidence(prop, tier, seed, "memory", res, violations, known_hits, wall, extra)
    missing = list(a["missing"])
    for acc in unknown:
        # a terminal accessor with the same lifetime-extending signature that no crash shape covers:
        # reported from the source scan (not from a simulated run - said so in the replay file)
        sig = "C16|dangling|%s" % acc
        if known_match(known, prop, sig):
            lines.append("KNOWN-FINDING: property=%s %s [%s]" % (prop, known_match(known, prop, sig).get("what", ""), sig))
            continue
        dest_dir = os.path.join(REPLAYS, prop)
        os.makedirs(dest_dir, exist_ok=True)
        dest = os.path.join(dest_dir, "unlisted-accessor-%s.static" % acc.replace("::", "-"))
        with open(dest, "w") as f:
            f.write("# STATIC finding (source scan of /repo/src/devices*.rs, not a simulated run): a public accessor returns\n"
                    "# &'a RefCell<Terminal<'a, E>> from &self, like the eleven known unsound ones, and no crash shape in\n"
                    "# /verif/miri/src/bin/dangle.rs exercises it yet.\naccessor=%s\nexpect=%s\n" % (acc, sig))
        violations += 1
        lines.append("VIOLATION property=%s replay=%s" % (prop, dest))
        lines.append("  signature=%s detail=new accessor with a lifetime not tied to &self (static scan; add a shape to miri/src/bin/dangle.rs)" % sig)
    finish(prop, tier, seed, lines, violations, len(known_hits), res["runs"], res["distinct_nontrivial"], wall, missing)


# ---------------------------------------------------------------- C19: feature configurations

VARIANTS = ["std_nodim", "stdrelease_nodim", "stddebug_dim", "stdmicromath_dim", "stdlibm_dim", "stdrelease_dim", "libm_dim", "libm_nodim", "libm_micromath_dim", "micromath_dim", "micromath_nodim"]
import re as _re
_VAL = _re.compile(r"[0-9a-f]{8}")


def run_traces(binary, prop, seed, runs, first=0, strip=False, tier="quick"):
    cmd = [binary, "traces", "--prop", prop, "--seed", str(seed), "--runs", str(runs), "--from", str(first), "--canon", "--full",
           "--tier", tier]
    if strip:
        cmd.append("--strip-units")
    r = run(cmd)
    if r.returncode != 0:
        print(r.stdout[-3000:])
        harness_error("trace run failed: %s" % " ".join(cmd))
    runs_out = {}
    cur = None
    for line in r.stdout.splitlines():
        if line.startswith("RUN "):
            parts = line.split()
            cur = int(parts[1])
            runs_out[cur] = {"meta": dict(p.split("=") for p in parts[3:]), "lines": []}
        elif cur is not None:
            runs_out[cur]["lines"].append(line.strip())
    return runs_out


POW_ULPS = 4


def ordered_bits(hx, hy):
    """distance between two f32 bit patterns counted in representable values (ulps)"""
    def key(h):
        b = int(h, 16)
        return -(b & 0x7fffffff) if b & 0x80000000 else b
    return abs(key(hx) - key(hy))


def f32_of(hexs):
    import struct
    return struct.unpack(">f", bytes.fromhex(hexs))[0]


def compare_runs(ref, other, backend):
    """Returns None when the two canonical traces agree under the C19 rules, else a description."""
    import math
    if len(ref["lines"]) != len(other["lines"]):
        return "trace lengths differ: %d vs %d lines" % (len(ref["lines"]), len(other["lines"]))
    pow_run = ref["meta"].get("pow") == "1"
    scale = 0.0
    if pow_run and backend == "libm":
        for l in ref["lines"]:
            for h in _VAL.findall(l):
                v = f32_of(h)
                if math.isfinite(v):
                    scale = max(scale, abs(v))
    for i, (a, b) in enumerate(zip(ref["lines"], other["lines"])):
        if a == b:
            continue
        sa, sb = _VAL.sub("#", a), _VAL.sub("#", b)
        if sa != sb:
            return "line %d differs in category / timestamp / structure:\n    ref:   %s\n    other: %s" % (i, a[:300], b[:300])
        va, vb = _VAL.findall(a), _VAL.findall(b)
        for x, y in zip(va, vb):
            if x == y:
                continue
            fx, fy = f32_of(x), f32_of(y)
            if (math.isnan(fx) and math.isnan(fy)) or fx == fy:
                continue
            if pow_run and backend == "micromath":
                continue  # power function results exempt; category and timestamp already compared
            if " POW -> " in a:
                # the power function read directly (ExponentStream over two constants): libm and std may
                # differ in the last ulps only, also when the result is subnormal
                if backend == "libm" and ordered_bits(x, y) <= POW_ULPS:
                    continue
                return "line %d: power function %r vs %r (%d ulps apart, %d allowed)\n    ref:   %s\n    other: %s" % (
                    i, fx, fy, ordered_bits(x, y), POW_ULPS, a[:300], b[:300])
            if pow_run and backend == "libm" and math.isfinite(fx) and math.isfinite(fy) and abs(fx - fy) <= 1e-4 * max(scale, 1e-30):
                continue
            return "line %d: value %r vs %r\n    ref:   %s\n    other: %s" % (i, fx, fy, a[:300], b[:300])
    return None


def check_c19(tier, seed, only_run=None, only_mode=None, only_build=None):
    prop = "C19"
    t0 = time.time()
    build_main()
    from concurrent.futures import ThreadPoolExecutor
    with ThreadPoolExecutor(max_workers=3) as ex:
        bins = dict(zip(VARIANTS, ex.map(variant_binary, VARIANTS)))
    nwell, nill = (300, 150) if tier == "quick" else (30000, 15000)
    first = 0
    if only_run is not None:
        first, nwell, nill = only_run, 1, 1
    lines = []
    violations = 0
    compared = 0
    ops_compared = 0
    per_build = {}
    distinct = set()
    samples = []
    known = load_known()

    def report(mode, build, idx, why):
        nonlocal violations
        sig = "C19|trace_divergence|%s:%s" % (build, mode)
        k = known_match(known, prop, sig)
        if k:
            lines.append("KNOWN-FINDING: property=%s %s [%s]" % (prop, k.get("what", ""), sig))
            return
        dest_dir = os.path.join(REPLAYS, prop)
        os.makedirs(dest_dir, exist_ok=True)
        dest = os.path.join(dest_dir, "%s-%s-seed%d-run%d.c19" % (build, mode, seed, idx))
        with open(dest, "w") as f:
            f.write("# C19 replay: the same plan executed by two builds; canonical traces must agree\n")
            f.write("# %s\n" % why.replace("\n", "\n# "))
            f.write("seed=%d\nrun=%d\nmode=%s\nbuild=%s\ntier=%s\nexpect=%s\n" % (seed, idx, mode, build, tier, sig))
        violations += 1
        lines.append("VIOLATION property=%s replay=%s" % (prop, dest))
        lines.append("  signature=%s detail=run %d: %s" % (sig, idx, why.replace("\n", " | ")))

    chunk = 3000
    for mode, total, builds in (("well", nwell, VARIANTS), ("ill", nill, [v for v in VARIANTS if v.endswith("nodim")])):
        if only_mode and mode != only_mode:
            continue
        p = "C19" if mode == "well" else "C19ill"
        for start in range(first, first + total, chunk):
            n = min(chunk, first + total - start)
            ref = run_traces(BIN, p, seed, n, start, strip=(mode == "ill"), tier=tier)
            if not samples and ref:
                k0 = sorted(ref)[0]
                samples = [{"run": k0, "mode": mode, "meta": ref[k0]["meta"], "canonical_trace_head": ref[k0]["lines"][:6]}]
            for r in ref.values():
                distinct.add((mode, r["meta"].get("world"), hash(tuple(r["lines"]))))
            failed_builds = set()
            for b in builds:
                if only_build and b != only_build:
                    continue
                backend = b.split("_")[0]
                other = run_traces(bins[b], p, seed, n, start, tier=tier)
                for idx in sorted(ref):
                    compared += 1
                    ops_compared += len(ref[idx]["lines"])
                    per_build[b] = per_build.get(b, 0) + 1
                    why = None
                    if idx not in other:
                        why = "run missing in build"
                    else:
                        why = compare_runs(ref[idx], other[idx], backend)
                        if why is None and mode == "ill" and any("panic" in l for l in other[idx]["lines"]):
                            why = "an ill-dimensioned plan panicked in an unchecked build"
                    if why and (b, mode) not in failed_builds:
                        failed_builds.add((b, mode))
                        report(mode, b, idx, why)
    wall = time.time() - t0
    os.makedirs(EVID, exist_ok=True)
    ev = {
        "property_id": prop, "tier": tier, "seed": seed, "level": "exploration",
        "coverage": {
            "evaluations": compared,
            "distinct_nontrivial": len(distinct),
            "rule": ("each case is one seeded plan (node / combinator / device / settable worlds; 'ill' = quantities in wrong or "
                     "changing units) executed by the simulator linked against rrtk in two feature configurations; evaluations = "
                     "(plan, build) pairs whose canonical traces (category, error value, i64 timestamp, f32 bits per op; units "
                     "dropped) were compared with the std+dim_check_release reference (for 'ill': with the unit-corrected twin "
                     "in the checked reference build). distinct = distinct (mode, world, reference trace) triples, counted with "
                     "a set; every plan contains at least one stateful update, fault or device update."),
            "samples": samples,
            "builds": ["std+dim_check_release (reference)"] + VARIANTS,
            "pairs_per_build": per_build,
            "trace_lines_compared": ops_compared,
            "runs_per_hour": int(compared / max(wall, 1e-6) * 3600),
            "exemptions": "values of runs containing an EWMA or exponent node: libm within 1e-4 of the run's value scale, micromath category+timestamp only",
            "components": {"real": ["every rrtk type reached by the node, comb, device and settable worlds, in twelve build configurations"],
                           "stub": ["leaf sensors, clocks, motors, reference build as oracle"]},
            "exhaustive": False,
        },
        "assumptions": ["the std + dim_check_release build is the reference; agreement of all twelve builds is what is checked (beyond the 3 x 2 grid: the crate's default features with the rrtk package compiled without / with debug assertions, std together with micromath / with libm, where std's functions must win, and libm together with micromath without std, where libm's must; and std + dim_check_release compiled without debug assertions, where unit checking is on although debug assertions are off)",
                        "plan generation is build-independent (no float-library calls on the generation path that differ between builds)"] + ASSUMPTIONS[3:],
        "wall_s": round(wall, 3),
        "violations": violations,
    }
    json.dump(ev, open(os.path.join(EVID, prop + ".json"), "w"), indent=1)
    finish(prop, tier, seed, lines, violations, 0, compared, len(distinct), wall, [])


SHIPPED = "stdrelease_nodim"
# every simulator property runs its batch again through simulators linked against rrtk in three more configurations
EXTRA_PASSES = [
    (SHIPPED, "-shipped", "cargo build --release ships it by default (default features, no debug assertions, no overflow or dimension checks)", 4),
    ("stdrelease_dim", "-release-checked", "a release build with unit checking kept on (std + dim_check_release, no debug assertions)", 8),
    ("libm_dim", "-nostd-libm", "a no_std build (alloc + libm + dim_check_release)", 8),
]


def variant_binary(name):
    """Build (if needed) and return the simulator binary of a feature variant, or None."""
    vdir = os.path.join(VERIF, "variants", name)
    if not os.path.isdir(vdir):
        return None
    r = run(["cargo", "build", "--release", "--offline"], cwd=vdir)
    if r.returncode != 0:
        print(r.stdout[-6000:])
        harness_error("variant %s does not build against /repo's working tree" % name)
    return os.path.join(VERIF, "target", "variants", name, "release", "rrtk-sim-" + name)


SIM_PROPS = {
    "C04": "node", "C05": "node", "C10": "node", "C11": "node", "C12": "node",
    "C08": "device", "C09": "device", "C13": "device", "C20": "device",
    "C02": "comb", "C03": "mixed", "C15": "settable",
}


def main():
    args = sys.argv[1:]
    if not args:
        print(__doc__)
        sys.exit(2)
    prop = args[0]
    tier = os.environ.get("VERIF_TIER", "quick")
    replay = None
    i = 1
    while i < len(args):
        if args[i] == "--tier":
            tier = args[i + 1]
            i += 2
        elif args[i] == "--replay":
            replay = args[i + 1]
            i += 2
        else:
            i += 1
    if tier not in ("quick", "thorough"):
        tier = "quick"
    try:
        seed = int(os.environ.get("VERIF_SEED", "1"))
    except ValueError:
        seed = 1
    seed &= (1 << 63) - 1
    if replay and replay.endswith(".c19"):
        kv = dict(l.strip().split("=", 1) for l in open(replay) if "=" in l and not l.startswith("#"))
        check_c19(kv.get("tier", "quick"), int(kv["seed"]), only_run=int(kv["run"]), only_mode=kv["mode"], only_build=kv["build"])
    if replay and replay.endswith(".shuttlerun"):
        kv = dict(l.strip().split("=", 1) for l in open(replay) if "=" in l and not l.startswith("#"))
        build_shuttle()
        r = run([SHUTTLE_BIN] + kv["args"].split() + ["--out", "/dev/null", "--dir", os.path.join(REPLAYS, "tmp", "shuttle-replay")], timeout=6 * 3600)
        if dies(r.returncode) or r.returncode == 124:
            print("VIOLATION property=%s replay=%s" % (prop, replay))
            sys.exit(1)
        sys.exit(0)
    if replay and replay.endswith(".range"):
        # a single-worker batch over a range of runs that was killed by a signal: it must be killed again
        kv = dict(l.strip().split("=", 1) for l in open(replay) if "=" in l and not l.startswith("#"))
        build_main()
        m = _re.search(r"/variants/([a-z_]+)/release/", kv.get("binary", ""))
        binary = variant_binary(m.group(1)) if m else BIN
        r = run([binary, "batch", "--prop", kv["prop"], "--tier", kv["tier"], "--seed", kv["seed"], "--workers", "1",
                 "--from", kv["from"], "--to", kv["to"], "--out", "/dev/null", "--replay-dir", os.path.join(REPLAYS, "tmp")])
        if dies(r.returncode):
            print("VIOLATION property=%s replay=%s" % (prop, replay))
            sys.exit(1)
        sys.exit(0)
    if replay and replay.endswith(".probe") and os.path.basename(replay).startswith("safe-route-"):
        pname = os.path.basename(replay)[len("safe-route-"):-len(".probe")]
        pr = run(["cargo", "build", "--release", "--offline", "--bin", pname], cwd=os.path.join(VERIF, "callers", "safe_route_probes"), timeout=1800)
        print(pr.stdout[-1500:])
        if pr.returncode == 0:
            print("VIOLATION property=%s replay=%s" % (prop, replay))
            sys.exit(1)
        sys.exit(0)
    if replay and replay.endswith(".probe"):
        pr = run(["cargo", "build", "--release", "--offline"], cwd=os.path.join(VERIF, "callers", "unsafe_probe"), timeout=1800)
        print(pr.stdout[-1500:])
        if pr.returncode == 0:
            print("VIOLATION property=%s replay=%s" % (prop, replay))
            sys.exit(1)
        sys.exit(0)
    if replay and replay.endswith(".build"):
        rn = run(["cargo", "run", "--release", "--offline"], cwd=os.path.join(VERIF, "callers", "nostd"), timeout=1800)
        print(rn.stdout[-2000:])
        if rn.returncode != 0 or "DONE nostd-caller" not in rn.stdout:
            print("VIOLATION property=%s replay=%s" % (prop, replay))
            sys.exit(1)
        sys.exit(0)
    if replay and replay.endswith(".static"):
        kv = dict(l.strip().split("=", 1) for l in open(replay) if "=" in l and not l.startswith("#"))
        if kv.get("accessor") in scan_accessors():
            print("VIOLATION property=%s replay=%s" % (prop, replay))
            sys.exit(1)
        sys.exit(0)
    if replay and replay.endswith(".miri"):
        if miri_replay(replay):
            print("VIOLATION property=%s replay=%s" % (prop, replay))
            sys.exit(1)
        sys.exit(0)
    if replay:
        build_main()
        # a plan found by one of the other simulators names that simulator in its first line
        head = open(replay).readline()
        m = _re.search(r"/verif/target/variants/([a-z_]+)/release/rrtk-sim-", head)
        if m:
            vb = variant_binary(m.group(1))
            r = run([vb, "replay", replay])
            ok, text = r.returncode == 1, r.stdout
        else:
            ok, text = replay_reproduces(replay)
        print(text)
        if ok:
            print("VIOLATION property=%s replay=%s" % (prop, replay))
            sys.exit(1)
        sys.exit(0)
    if prop == "C17":
        check_c17(tier, seed)
    if prop == "C16":
        check_c16(tier, seed)
    if prop == "C19":
        check_c19(tier, seed)
    if prop in SIM_PROPS:
        sim_batch(prop, tier, seed, SIM_PROPS[prop])
    harness_error("no check registered for %s" % prop)


if __name__ == "__main__":
    main()
