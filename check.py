#!/usr/bin/env python3
"""Driver for the rrtk deterministic-simulation checks.

  python3 check.py <property> [--tier quick|thorough] [--replay FILE]

exit 0  property held on everything explored (KNOWN-FINDING lines may be printed)
exit 1  "VIOLATION property=<id> replay=<path>" printed for each unlisted violation
exit 2  harness error (build failure, non-reproducing replay, reach probe at zero)

Honours VERIF_SEED (default 1) and VERIF_TIER. Rebuilds from /repo's working tree.
"""
import json
import os
import shutil
import subprocess
import sys
import time

VERIF = os.path.dirname(os.path.abspath(__file__))
SIM_DIR = os.path.join(VERIF, "sim")
BIN = os.path.join(VERIF, "target", "main", "release", "rrtk-sim")
EVID = os.environ.get("VERIF_EVIDENCE_DIR") or os.path.join(VERIF, "evidence")
REPLAYS = os.path.join(VERIF, "replays")
KNOWN = os.path.join(VERIF, "known_findings.jsonl")

ENV = dict(os.environ)
ENV["CARGO_NET_OFFLINE"] = "true"


def harness_error(msg):
    print("HARNESS-ERROR: " + msg, flush=True)
    sys.exit(2)


def run(cmd, cwd=None, env=None, timeout=None):
    return subprocess.run(cmd, cwd=cwd, env=env or ENV, stdout=subprocess.PIPE,
                          stderr=subprocess.STDOUT, text=True, timeout=timeout)


def build_main():
    r = run(["cargo", "build", "--release", "--offline"], cwd=SIM_DIR)
    if r.returncode != 0:
        print(r.stdout[-6000:])
        harness_error("the simulator does not build against /repo's working tree")


def load_known():
    out = []
    if os.path.exists(KNOWN):
        for line in open(KNOWN):
            line = line.strip()
            if line and not line.startswith("#"):
                out.append(json.loads(line))
    return out


def known_match(known, prop, signature):
    for k in known:
        if k.get("status") == "finding" and k.get("property") == prop and k.get("signature") == signature:
            return k
    return None


# reach probes that must be non-zero in a batch (otherwise the batch is not a pass)
REQUIRED_PROBES = {
    "C15": ["set_rejected", "set_rejected_while_following", "set_time_after_clock_moved", "update_while_following", "adapter_get"],
    "C02": ["two_different_errors", "nary_leading_absent", "equivalence_checked"],
    "C08": ["both_sides_present", "one_sided", "axle_partial_presence", "diff_equal_all_present", "diff_waits_for_data",
            "teeth_ratio_observed"],
    "C09": ["reconnect_same_pair", "connect_steals_both", "connect_steals_one", "disconnect_unlinked"],
    "C13": ["relay_competing_commands", "newest_not_at_side1", "relayed_two_hops"],
    "C20": ["actuator_sees_nothing", "pid_wrapper_fed", "pid_wrapper_drives_motor"],
    "C04": ["time_shift_twin", "scaling_twin", "present_after_reset", "recovery_checked"],
    "C05": ["err_then_2_present", "present_after_reset", "absent_deletion_twin", "recovery_checked"],
    "C10": ["time_shift_twin", "misdim_panic", "err_then_2_present"],
    "C11": ["set_same_twin", "present_after_reset"],
    "C12": ["variant_twin", "ma_multi_sample_window", "ewma_first_sample"],
}

RULES = {
    "settable": ("each case is one seeded op history over four settables (user motor relying on the trait defaults, "
                 "ConstantGetter, Terminal state, Terminal command), their followed getters, a scripted clock (jumps forwards "
                 "and backwards, errors) and a GetterFromHistory adapter in its four constructor forms over a recording history. "
                 "Non-trivial: a set was rejected, an update ran while following, or the adapter was read; distinct = hash of the "
                 "(op, settable) sequence, counted with a set."),
    "comb": ("each case is one seeded plan: a DAG (depth <= 3) of real rrtk combinators over scripted f32 / bool / Quantity "
             "leaf sensors and clocks, and an op list that re-scripts leaves (present with older/equal/newer stamps, absent, "
             "E1, E2) and clocks (before/at/after expiry, error); every node is read after every op and judged against a "
             "table-driven model fed with its own inputs' outcomes. Non-trivial: some node input was absent or an error; "
             "distinct = hash of the sequence of (node, input-category tuple, timestamp-order class), counted with a set. "
             "cells_reached counts distinct (kind, arity, category tuple, order class, expiry class) cells."),
    "mixed": ("C03 rides on three worlds: combinator DAGs (2/4 of the runs), device graphs (1/4) and the Datum operator "
              "layer (1/4; operator_layer_evaluations reported separately, see DESIGN 5 C03). Non-trivial and distinct as "
              "in those worlds."),
    "device": ("each case is one seeded plan: an arena of real devices / wrappers / free terminals (header) and an op list "
               "(connect, disconnect, set state / command with unique skewed timestamps, update one device, inner-object "
               "faults) executed on the real rrtk device graph; every terminal is read after every op. A run is non-trivial "
               "when it contains at least one connect; distinct = distinct hash of the sequence of (op kind, link-matching "
               "class) over the run, counted with a set."),
    "node": ("each case is one seeded plan: a header (node kind, gains/window/units) and an op list "
             "(scripted leaf-sensor outcomes present/absent/E1/E2, update, extra reads, command/follow ops) "
             "executed on the real rrtk stream. A run is non-trivial when it contains at least one reset event or "
             "reaches a model state with history (>= 2 samples); distinct = distinct hash of the sequence of "
             "(node kind, op category, model-state class) over the whole run, counted with a set."),
}

COMPONENTS = {
    "settable": {
        "real": ["Settable default methods (set/follow/stop_following/update_following_data/get_last_request)", "SettableData",
                 "ConstantGetter", "Terminal (both Settable impls, Updatable)", "GetterFromHistory (all constructors, set_delta, "
                 "set_time, get, update)", "TimeGetterFromGetter", "NoneToError"],
        "stub": ["FaultyMotor (impl_set accept/reject)", "followed getters", "SimClock", "RecordingHistory", "reference model"],
    },
    "comb": {
        "real": ["SumStream<1..8>", "ProductStream<1..8>", "Latest<1..8>", "Sum2", "Product2", "DifferenceStream",
                 "QuotientStream", "ExponentStream", "IfStream", "IfElseStream", "Expirer", "NoneToError", "NoneToValue",
                 "AndStream", "OrStream", "NotStream", "Reference (RcRefCell)"],
        "stub": ["leaf sensors", "clocks", "table-driven outcome model"],
    },
    "mixed": {
        "real": ["all combinators", "Terminal/connect/devices", "Datum operator impls", "replace_if_* helpers", "latest()"],
        "stub": ["leaf sensors", "clocks", "operator nodes (harness-defined user streams)"],
    },
    "device": {
        "real": ["Terminal", "connect", "Terminal::disconnect", "Invert", "GearTrain (ratio, Quantity ratio, tooth list)",
                 "Axle<0..8>", "Differential (4 trust modes)", "ActuatorWrapper", "GetterStateDeviceWrapper", "PIDWrapper",
                 "CommandPID (inside PIDWrapper and as twin)", "ConstantGetter", "Datum operators used by devices"],
        "stub": ["inner motors (Settable<TerminalData>/Settable<f32>, scripted accept/reject)", "inner encoder getter",
                 "reference models (matching, projection, relay)"],
    },
    "node": {
        "real": ["PIDControllerStream", "CommandPID", "EWMAStream<f32>", "EWMAStream<Quantity>",
                 "MovingAverageStream<f32>", "MovingAverageStream<Quantity>", "IntegralStream", "DerivativeStream",
                 "AccelerationToState", "VelocityToState", "PositionToState", "FloatToQuantity", "QuantityToFloat",
                 "FreezeStream", "Reference (RcRefCell)", "Settable::set/follow/update_following_data"],
        "stub": ["leaf Sensor<T> getters (scripted outcome)", "followed command getter", "reference models"],
    },
}

ASSUMPTIONS = [
    "reference models in /verif/sim/src (read from the property statements) are the specification",
    "forward-error bound of DESIGN.md section 2.4 (8x a running first-order bound) separates rounding from defects",
    "rustc/std float arithmetic is IEEE-754 binary32; std powf is accurate to a few ulp",
    "a clean batch is evidence, not proof: schedules/histories are sampled by a seeded PRNG, not enumerated",
]


def write_evidence(prop, tier, seed, world, res, violations, known_hits, wall, extra=None):
    os.makedirs(EVID, exist_ok=True)
    cov = {
        "evaluations": res["runs"],
        "distinct_nontrivial": res["distinct_nontrivial"],
        "rule": RULES.get(world, world),
        "samples": res["samples"][:3],
        "nontrivial_runs": res["nontrivial_runs"],
        "runs_per_hour": int(res["runs"] / max(res["wall_batch_s"], 1e-6) * 3600),
        "simulated_seconds_covered": res["sim_seconds"],
        "faults_fired": res["faults_fired"],
        "reach_probes": res["reach_probes"],
        "value_comparisons": res["counts"].get("value_compared", 0),
        "operator_layer_evaluations": res["counts"].get("operator_layer_evaluations", 0),
        "ill_conditioned_skipped": res["counts"].get("ill_conditioned_skipped", 0),
        "cells_reached": res["cells_reached"],
        "trace_digest": res["trace_xor"] + res["trace_sum"],
        "components": COMPONENTS.get(world, {}),
        "known_findings_reproduced": known_hits,
        "failing_runs": res["failing_runs"],
        "workers": res["workers"],
        "exhaustive": False,
    }
    if extra:
        cov.update(extra)
    ev = {
        "property_id": prop,
        "tier": tier,
        "seed": seed,
        "level": "exploration",
        "coverage": cov,
        "assumptions": ASSUMPTIONS,
        "wall_s": round(wall, 3),
        "violations": violations,
    }
    with open(os.path.join(EVID, prop + ".json"), "w") as f:
        json.dump(ev, f, indent=1)


def replay_reproduces(path):
    r = run([BIN, "replay", path])
    return r.returncode == 1, r.stdout


def sim_batch(prop, tier, seed, world):
    t0 = time.time()
    build_main()
    tmpdir = os.path.join(REPLAYS, "tmp", "%s-%d" % (prop, os.getpid()))
    shutil.rmtree(tmpdir, ignore_errors=True)
    os.makedirs(tmpdir, exist_ok=True)
    out = os.path.join(tmpdir, "result.json")
    cmd = [BIN, "batch", "--prop", prop, "--tier", tier, "--seed", str(seed), "--out", out,
           "--replay-dir", tmpdir, "--workers", str(os.cpu_count() or 16)]
    runs = os.environ.get("VERIF_RUNS")
    if runs:
        cmd += ["--runs", runs]
    r = run(cmd)
    if r.returncode not in (0, 1) or not os.path.exists(out):
        print(r.stdout[-4000:])
        harness_error("simulator batch for %s died (exit %s)" % (prop, r.returncode))
    res = json.load(open(out))
    known = load_known()
    violations = 0
    known_hits = []
    lines = []
    for f in res["failures"]:
        ok, text = replay_reproduces(f["replay"])
        if not ok:
            print(text[-2000:])
            harness_error("minimised replay %s does not reproduce %s in a fresh process" % (f["replay"], f["signature"]))
        k = known_match(known, prop, f["signature"])
        if k:
            known_hits.append(f["signature"])
            lines.append("KNOWN-FINDING: property=%s %s [%s]" % (prop, k.get("what", ""), f["signature"]))
            continue
        violations += 1
        dest_dir = os.path.join(REPLAYS, prop)
        os.makedirs(dest_dir, exist_ok=True)
        dest = os.path.join(dest_dir, os.path.basename(f["replay"]))
        shutil.copyfile(f["replay"], dest)
        lines.append("VIOLATION property=%s replay=%s" % (prop, dest))
        lines.append("  signature=%s detail=%s (run %d, %d ops minimised to %d)" % (
            f["signature"], f["detail"], f["run"], f["ops_original"], f["ops_minimised"]))
    missing = [p for p in REQUIRED_PROBES.get(prop, []) if res["reach_probes"].get(p, 0) == 0]
    wall = time.time() - t0
    write_evidence(prop, tier, seed, world, res, violations, known_hits, wall)
    shutil.rmtree(tmpdir, ignore_errors=True)
    for l in lines:
        print(l)
    print("%s %s seed=%d runs=%d distinct_nontrivial=%d violations=%d known=%d wall=%.1fs" % (
        prop, tier, seed, res["runs"], res["distinct_nontrivial"], violations, len(known_hits), wall))
    if violations:
        sys.exit(1)
    if missing:
        harness_error("reach probes at zero: %s" % ", ".join(missing))
    sys.exit(0)


SIM_PROPS = {
    "C04": "node", "C05": "node", "C10": "node", "C11": "node", "C12": "node",
    "C08": "device", "C09": "device", "C13": "device", "C20": "device",
    "C02": "comb", "C03": "mixed", "C15": "settable",
}


def main():
    args = sys.argv[1:]
    if not args:
        print(__doc__)
        sys.exit(2)
    prop = args[0]
    tier = os.environ.get("VERIF_TIER", "quick")
    replay = None
    i = 1
    while i < len(args):
        if args[i] == "--tier":
            tier = args[i + 1]
            i += 2
        elif args[i] == "--replay":
            replay = args[i + 1]
            i += 2
        else:
            i += 1
    if tier not in ("quick", "thorough"):
        tier = "quick"
    try:
        seed = int(os.environ.get("VERIF_SEED", "1"))
    except ValueError:
        seed = 1
    seed &= (1 << 63) - 1
    if replay:
        build_main()
        ok, text = replay_reproduces(replay)
        print(text)
        if ok:
            print("VIOLATION property=%s replay=%s" % (prop, replay))
            sys.exit(1)
        sys.exit(0)
    if prop in SIM_PROPS:
        sim_batch(prop, tier, seed, SIM_PROPS[prop])
    harness_error("no check registered for %s" % prop)


if __name__ == "__main__":
    main()
