//! C17(b): `Reference`s that several threads build over one shared Arc<Mutex>/Arc<RwLock>,
//! executed under shuttle's controlled schedulers (seeded random and PCT). rrtk is built
//! with `--cfg rrtk_verif_shuttle`, so the locks inside `Reference` are shuttle's and every
//! acquisition is a scheduling decision the simulator owns. One seed = one sequence of
//! schedules; a failing schedule is persisted by shuttle and replays exactly.
//!
//!   rrtk-shuttle run --seed S --iters N --out result.json --dir DIR [--workers W]
//!   rrtk-shuttle replay SHAPE FILE          exit 1 iff the scenario fails again

use rrtk::*;
use shuttle::rand::Rng;
use shuttle::scheduler::{PctScheduler, RandomScheduler};
use shuttle::sync::{Arc, Mutex, RwLock};
use shuttle::{Config, FailurePersistence, Runner};
use std::collections::BTreeSet;
use std::panic::{catch_unwind, AssertUnwindSafe};
use std::sync::atomic::{AtomicU64, Ordering};
use std::sync::Mutex as StdMutex;

pub struct Cell {
    counter: u64,
    reg: u64,
}

#[derive(Clone, Copy, Debug)]
struct Ev {
    thread: usize,
    inv: u64,
    ret: u64,
    /// Some(v) = write of v, None = read
    write: Option<u64>,
    /// value read
    read: u64,
}

#[derive(Clone, Copy, PartialEq, Eq, Debug)]
pub struct Shape {
    /// 0 = ArcMutex, 1 = ArcRwLock, 2 = PtrMutex, 3 = PtrRwLock (a pointer to the lock inside the shared
    /// Arc, which the scenario keeps alive: what `static_mutex_reference!` / `static_rw_lock_reference!`
    /// build over a static)
    variant: u8,
    threads: usize,
    ops: usize,
    /// 0 mixed, 1 increments only, 2 register only, 3 mixed through a clone of the thread's Reference
    mix: u8,
    /// 0: every thread owns a strong clone of the Arc for its whole life and the spawning thread keeps one;
    /// 1: the spawning thread's Reference is the ONLY strong owner and works alongside the others, which
    ///    hold `Weak`s and upgrade one for the duration of each operation (so the strong count moves
    ///    between 1 and N while borrows are outstanding)
    own: u8,
}

impl Shape {
    fn from_id(id: u64) -> Shape {
        Shape {
            variant: (id % 2) as u8 + 2 * ((id / 672) % 2) as u8,
            threads: 2 + ((id / 2) % 7) as usize,
            ops: 1 + ((id / 14) % 6) as usize,
            mix: ((id / 84) % 4) as u8,
            own: ((id / 336) % 2) as u8,
        }
    }
    fn id(&self) -> u64 {
        (self.variant % 2) as u64 + 2 * (self.threads as u64 - 2) + 14 * (self.ops as u64 - 1) + 84 * self.mix as u64 + 336 * self.own as u64 + 672 * (self.variant / 2) as u64
    }
}

static SEQ: AtomicU64 = AtomicU64::new(0);
static INTERLEAVINGS: StdMutex<BTreeSet<u64>> = StdMutex::new(BTreeSet::new());
static EXECUTIONS: AtomicU64 = AtomicU64::new(0);
static LIN_CHECKED: AtomicU64 = AtomicU64::new(0);
static CONTENDED: AtomicU64 = AtomicU64::new(0);

fn tick() -> u64 {
    SEQ.fetch_add(1, Ordering::SeqCst)
}

/// Wing–Gong search: is there a total order consistent with real time in which every
/// read returns the latest preceding write (initial value 0)?
fn linearizable(evs: &[Ev]) -> bool {
    fn go(evs: &[Ev], done: &mut Vec<bool>, reg: u64, remaining: usize) -> bool {
        if remaining == 0 {
            return true;
        }
        // an op may go first iff no other pending op returned before it was invoked
        let min_ret = evs.iter().enumerate().filter(|(i, _)| !done[*i]).map(|(_, e)| e.ret).min().unwrap();
        for i in 0..evs.len() {
            if done[i] || evs[i].inv > min_ret {
                continue;
            }
            let e = evs[i];
            let (ok, new_reg) = match e.write {
                Some(v) => (true, v),
                None => (e.read == reg, reg),
            };
            if ok {
                done[i] = true;
                if go(evs, done, new_reg, remaining - 1) {
                    return true;
                }
                done[i] = false;
            }
        }
        false
    }
    let mut done = vec![false; evs.len()];
    go(evs, &mut done, 0, evs.len())
}

fn make_ref(variant: u8, am: &Arc<Mutex<Cell>>, ar: &Arc<RwLock<Cell>>) -> Reference<Cell> {
    match variant {
        0 => Reference::from_arc_mutex(am.clone()),
        1 => Reference::from_arc_rw_lock(ar.clone()),
        // the pointee lives inside the Arc, which every holder of such a Reference keeps alive
        2 => unsafe { Reference::from_ptr_mutex(Arc::as_ptr(am)) },
        _ => unsafe { Reference::from_ptr_rw_lock(Arc::as_ptr(ar)) },
    }
}

fn scenario(shape: Shape) {
    let am = Arc::new(Mutex::new(Cell { counter: 0, reg: 0 }));
    let ar = Arc::new(RwLock::new(Cell { counter: 0, reg: 0 }));
    let history: std::sync::Arc<StdMutex<Vec<Ev>>> = std::sync::Arc::new(StdMutex::new(Vec::new()));
    let entered: std::sync::Arc<StdMutex<Vec<u8>>> = std::sync::Arc::new(StdMutex::new(Vec::new()));
    let incs = std::sync::Arc::new(AtomicU64::new(0));
    let base = make_ref(shape.variant, &am, &ar);
    let weak = shape.own == 1;
    let (wm, wr) = (Arc::downgrade(&am), Arc::downgrade(&ar));
    // a pointer-variant Reference owns nothing: the scenario itself keeps the locks alive
    let _keep = if shape.variant >= 2 { Some((am.clone(), ar.clone())) } else { None };
    // in weak mode `base` holds the only strong count of the variant under test
    let (am, ar) = if weak {
        drop(am);
        drop(ar);
        (None, None)
    } else {
        (Some(am), Some(ar))
    };
    let mut joins = Vec::new();
    for t in 0..shape.threads {
        let (am2, ar2) = (am.clone(), ar.clone());
        let (wm2, wr2) = (wm.clone(), wr.clone());
        let history = history.clone();
        let entered = entered.clone();
        let incs = incs.clone();
        // (a Reference is not Send: every thread builds its own over the shared Arc;
        //  mix 3 makes the thread work through a clone of its own Reference)
        joins.push(shuttle::thread::spawn(move || {
            let build = || -> Reference<Cell> {
                let own = match (&am2, &ar2) {
                    (Some(m), Some(r)) => make_ref(shape.variant, m, r),
                    // (weak mode: the spawning thread's `base` keeps the target alive throughout, so a
                    //  pointer taken from a momentarily upgraded Arc stays valid)
                    _ if shape.variant % 2 == 0 => {
                        let a = wm2.upgrade().expect("C17 liveness: the target died while a Reference to it exists");
                        if shape.variant == 0 { Reference::from_arc_mutex(a) } else { unsafe { Reference::from_ptr_mutex(Arc::as_ptr(&a)) } }
                    }
                    _ => {
                        let a = wr2.upgrade().expect("C17 liveness: the target died while a Reference to it exists");
                        if shape.variant == 1 { Reference::from_arc_rw_lock(a) } else { unsafe { Reference::from_ptr_rw_lock(Arc::as_ptr(&a)) } }
                    }
                };
                if shape.mix == 3 {
                    own.clone()
                } else {
                    own
                }
            };
            let mut cur: Option<Reference<Cell>> = if weak { None } else { Some(build()) };
            let mut rng = shuttle::rand::thread_rng();
            for k in 0..shape.ops {
                if weak {
                    cur = Some(build());
                }
                let r = cur.as_ref().unwrap();
                let choice: u32 = match shape.mix {
                    1 => 0,
                    2 => 1 + rng.gen_range(0..2u32),
                    _ => rng.gen_range(0..4u32),
                };
                match choice {
                    0 | 3 => {
                        // read-modify-write with a scheduling point inside the borrow
                        let mut g = r.borrow_mut();
                        entered.lock().unwrap().push(t as u8);
                        let v = g.counter;
                        shuttle::thread::sleep(std::time::Duration::from_millis(0));
                        g.counter = v + 1;
                        drop(g);
                        incs.fetch_add(1, Ordering::SeqCst);
                    }
                    1 => {
                        let val = (t as u64 + 1) * 1000 + k as u64;
                        let inv = tick();
                        {
                            let mut g = r.borrow_mut();
                            entered.lock().unwrap().push(64 + t as u8);
                            g.reg = val;
                            if rng.gen_bool(0.3) {
                                shuttle::thread::sleep(std::time::Duration::from_millis(0));
                            }
                        }
                        let ret = tick();
                        history.lock().unwrap().push(Ev { thread: t, inv, ret, write: Some(val), read: 0 });
                    }
                    _ => {
                        let inv = tick();
                        let got = {
                            let g = r.borrow();
                            entered.lock().unwrap().push(128 + t as u8);
                            let x = g.reg;
                            if rng.gen_bool(0.3) {
                                shuttle::thread::sleep(std::time::Duration::from_millis(0));
                            }
                            x
                        };
                        let ret = tick();
                        history.lock().unwrap().push(Ev { thread: t, inv, ret, write: None, read: got });
                    }
                }
                // a clone of the thread's own Reference denotes the same object
                if rng.gen_bool(0.2) {
                    let c = r.clone();
                    let a = c.borrow().counter;
                    let _ = a;
                }
                if weak {
                    cur = None;
                }
            }
        }));
    }
    if weak {
        // the sole strong owner works too: read-modify-write with a scheduling point inside the borrow
        for _ in 0..shape.ops {
            let mut g = base.borrow_mut();
            entered.lock().unwrap().push(shape.threads as u8);
            let v = g.counter;
            shuttle::thread::sleep(std::time::Duration::from_millis(0));
            g.counter = v + 1;
            drop(g);
            incs.fetch_add(1, Ordering::SeqCst);
            shuttle::thread::sleep(std::time::Duration::from_millis(0));
        }
    }
    for j in joins {
        j.join().unwrap();
    }
    // conservation: no increment lost
    let final_counter = base.borrow().counter;
    let expected = incs.load(Ordering::SeqCst);
    assert_eq!(final_counter, expected, "C17 conservation: {} increments were made but the counter is {}", expected, final_counter);
    // register linearizability over the recorded invoke/return history
    let evs = history.lock().unwrap().clone();
    if evs.len() <= 16 {
        LIN_CHECKED.fetch_add(1, Ordering::Relaxed);
        assert!(linearizable(&evs), "C17 linearizability: no sequential order explains the history {:?}", evs);
    }
    let ent = entered.lock().unwrap();
    let mut h: u64 = 0xcbf29ce484222325;
    let mut switches = 0;
    for (i, b) in ent.iter().enumerate() {
        h ^= *b as u64;
        h = h.wrapping_mul(0x100000001b3);
        if i > 0 && (ent[i - 1] & 63) != (*b & 63) {
            switches += 1;
        }
    }
    if switches > 0 {
        CONTENDED.fetch_add(1, Ordering::Relaxed);
    }
    h ^= shape.id() << 48;
    INTERLEAVINGS.lock().unwrap().insert(h);
    EXECUTIONS.fetch_add(1, Ordering::Relaxed);
}

fn arg_val(args: &[String], key: &str) -> Option<String> {
    args.iter().position(|a| a == key).and_then(|i| args.get(i + 1).cloned())
}

fn jstr(s: &str) -> String {
    let mut o = String::from("\"");
    for c in s.chars() {
        match c {
            '"' => o.push_str("\\\""),
            '\\' => o.push_str("\\\\"),
            '\n' => o.push_str("\\n"),
            c if (c as u32) < 0x20 => o.push(' '),
            c => o.push(c),
        }
    }
    o.push('"');
    o
}

fn main() {
    let args: Vec<String> = std::env::args().collect();
    // keep shuttle's own panic output, but quiet
    std::panic::set_hook(Box::new(|_| {}));
    match args.get(1).map(|s| s.as_str()) {
        Some("run") => {
            let seed: u64 = arg_val(&args, "--seed").and_then(|s| s.parse().ok()).unwrap_or(1);
            let iters: usize = arg_val(&args, "--iters").and_then(|s| s.parse().ok()).unwrap_or(1000);
            let out = arg_val(&args, "--out").unwrap_or("/dev/stdout".into());
            let dir = arg_val(&args, "--dir").unwrap_or("/verif/replays/tmp/shuttle".into());
            let nshapes: u64 = arg_val(&args, "--shapes").and_then(|s| s.parse().ok()).unwrap_or(16);
            let _ = std::fs::create_dir_all(&dir);
            let t0 = std::time::Instant::now();
            let mut failures: Vec<String> = Vec::new();
            let mut schedulers_used = 0u64;
            // shapes derived from the seed; schedulers: random + PCT depth 1..5
            let mut sm = seed.wrapping_mul(0x9E3779B97F4A7C15) ^ 0xD1B54A32D192ED03;
            for si in 0..nshapes {
                sm = sm.wrapping_mul(6364136223846793005).wrapping_add(1442695040888963407);
                let shape = if si < 4 {
                    // always include the four corner shapes
                    Shape { variant: (si % 2) as u8, threads: if si < 2 { 2 } else { 8 }, ops: if si < 2 { 6 } else { 2 }, mix: 0, own: 0 }
                } else if si < 6 {
                    // ... and the sole-strong-owner arrangement for both lock kinds
                    Shape { variant: (si % 2) as u8, threads: 2, ops: 4, mix: 1, own: 1 }
                } else if si < 8 {
                    // ... and the pointer-to-lock variants under contention
                    Shape { variant: 2 + (si % 2) as u8, threads: 3, ops: 4, mix: 0, own: 0 }
                } else {
                    Shape::from_id((sm >> 20) % 1344)
                };
                for sched in 0..6u32 {
                    // shuttle keeps one persistence directory per process: list it before and after
                    let sdir = dir.clone();
                    let before: BTreeSet<String> = std::fs::read_dir(&sdir).map(|d| d.filter_map(|e| e.ok()).map(|e| e.path().display().to_string()).collect()).unwrap_or_default();
                    let mut cfg = Config::new();
                    cfg.failure_persistence = FailurePersistence::File(Some(sdir.clone().into()));
                    let s2 = seed ^ (shape.id() << 8) ^ sched as u64;
                    let res = catch_unwind(AssertUnwindSafe(|| {
                        if sched == 0 {
                            Runner::new(RandomScheduler::new_from_seed(s2, iters), cfg).run(move || scenario(shape));
                        } else {
                            Runner::new(PctScheduler::new_from_seed(s2, sched as usize, iters), cfg).run(move || scenario(shape));
                        }
                    }));
                    schedulers_used += 1;
                    if let Err(p) = res {
                        let msg = if let Some(s) = p.downcast_ref::<String>() { s.clone() } else if let Some(s) = p.downcast_ref::<&str>() { s.to_string() } else { "panic".into() };
                        // the schedule file shuttle persisted
                        let after: BTreeSet<String> = std::fs::read_dir(&sdir).map(|d| d.filter_map(|e| e.ok()).map(|e| e.path().display().to_string()).collect()).unwrap_or_default();
                        let file = after.difference(&before).next().cloned().unwrap_or_default();
                        let first = msg.lines().next().unwrap_or("").to_string();
                        failures.push(format!("{{\"shape\":{},\"scheduler\":{},\"schedule_file\":{},\"message\":{}}}", shape.id(), sched, jstr(&file), jstr(&first)));
                        if failures.len() >= 4 {
                            break;
                        }
                    }
                }
                if failures.len() >= 4 {
                    break;
                }
            }
            let json = format!(
                "{{\"seed\":{},\"iters_per_scheduler\":{},\"schedulers\":{},\"executions\":{},\"distinct_interleavings\":{},\"contended_executions\":{},\"linearizability_checked\":{},\"wall_s\":{:.3},\"failures\":[{}]}}",
                seed,
                iters,
                schedulers_used,
                EXECUTIONS.load(Ordering::Relaxed),
                INTERLEAVINGS.lock().unwrap().len(),
                CONTENDED.load(Ordering::Relaxed),
                LIN_CHECKED.load(Ordering::Relaxed),
                t0.elapsed().as_secs_f64(),
                failures.join(",")
            );
            std::fs::write(&out, json).expect("write result");
            std::process::exit(if failures.is_empty() { 0 } else { 1 });
        }
        Some("replay") => {
            let shape = Shape::from_id(args.get(2).and_then(|s| s.parse().ok()).unwrap_or(0));
            let file = args.get(3).cloned().unwrap_or_default();
            let res = catch_unwind(AssertUnwindSafe(|| {
                shuttle::replay_from_file(move || scenario(shape), &file);
            }));
            match res {
                Ok(()) => {
                    println!("NOT-REPRODUCED");
                    std::process::exit(0);
                }
                Err(p) => {
                    let msg = if let Some(s) = p.downcast_ref::<String>() { s.clone() } else if let Some(s) = p.downcast_ref::<&str>() { s.to_string() } else { "panic".into() };
                    println!("REPRODUCED {}", msg.lines().next().unwrap_or(""));
                    std::process::exit(1);
                }
            }
        }
        _ => {
            eprintln!("usage: rrtk-shuttle run|replay ...");
            std::process::exit(2);
        }
    }
}
