//! Must NOT compile: see Cargo.toml.
use rrtk::*;

pub trait Probe {
    fn read(&self) -> u64;
}
impl Probe for u64 {
    fn read(&self) -> u64 {
        *self
    }
}

pub fn mint(target: &mut u64) -> Reference<dyn Probe> {
    let p: *mut u64 = target;
    // `Reference::from_ptr` is an unsafe fn: without an `unsafe` block of OUR OWN this is an error
    to_dyn!(Probe, Reference::from_ptr(p))
}
