//! Must NOT compile: the initial value handed to the macro dereferences a raw pointer, which needs an
//! `unsafe` block of the CALLER's own; the macro must not lend it one of its own.
#![forbid(unsafe_code)]
use rrtk::*;
const DANGLING: *const i32 = core::ptr::NonNull::<i32>::dangling().as_ptr();

fn main() {
    let r = static_reference!(i32, *DANGLING);
    println!("{}", *r.borrow());
}
