//! Must NOT compile: the pointer constructors are unsafe fns.
#![forbid(unsafe_code)]
use rrtk::*;

fn main() {
    let mut local = 7u64;
    let r: Reference<u64> = Reference::from_ptr(&mut local as *mut u64);
    println!("{}", *r.borrow());
}
