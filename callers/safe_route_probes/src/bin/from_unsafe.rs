//! Must NOT compile: `ReferenceUnsafe`'s variants are public, so `ReferenceUnsafe::Ptr(p)` is a safe
//! expression; turning it into the safe wrapper must need `unsafe` (there is no `From` / `Into`).
#![forbid(unsafe_code)]
use rrtk::reference::ReferenceUnsafe;
use rrtk::*;

fn forge(p: *mut u64) -> Reference<u64> {
    Reference::from(ReferenceUnsafe::Ptr(p))
}
fn main() {
    let r = {
        let mut local = 7u64;
        forge(&mut local)
    };
    println!("{}", *r.borrow());
}
