//! Must NOT compile: the wrapper's field is private, so the tuple constructor is not callable from outside.
#![forbid(unsafe_code)]
use rrtk::reference::ReferenceUnsafe;
use rrtk::*;

fn main() {
    let mut local = 7u64;
    let r: Reference<u64> = Reference(ReferenceUnsafe::Ptr(&mut local as *mut u64));
    println!("{}", *r.borrow());
}
