//! Must NOT compile: the same through `Into`.
#![forbid(unsafe_code)]
use rrtk::reference::ReferenceUnsafe;
use rrtk::*;

fn main() {
    let mut local = 7u64;
    let r: Reference<u64> = ReferenceUnsafe::Ptr(&mut local as *mut u64).into();
    println!("{}", *r.borrow());
}
