//! Must NOT compile: borrowing through the unsafe enum directly is an unsafe operation.
#![forbid(unsafe_code)]
use rrtk::reference::ReferenceUnsafe;

fn main() {
    let mut local = 7u64;
    let u = ReferenceUnsafe::Ptr(&mut local as *mut u64);
    println!("{}", *u.borrow());
}
