fn main() {
    let (seen, before, after) = rrtk_nostd_caller::rc_round_trip();
    assert_eq!(seen, 9, "a write through the trait object is seen through the concrete handle");
    assert_eq!((before, after), (0, 1), "the target lives until the last handle is dropped");
    assert_eq!(rrtk_nostd_caller::static_round_trip(), 11);
    println!("DONE nostd-caller");
}
