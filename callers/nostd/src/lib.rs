//! A `#![no_std]` crate that uses `to_dyn!` (C17: the conversion must work "regardless of which
//! features the calling crate itself declares" - this one declares none and does not even link std
//! by name). Nothing here may mention `std`.
#![no_std]
#![forbid(unsafe_code)]
extern crate alloc;

use rrtk::*;

pub trait Cellish {
    fn read(&self) -> i64;
    fn write(&mut self, v: i64);
}
pub struct Payload {
    pub v: i64,
    pub drops: alloc::rc::Rc<core::cell::Cell<u32>>,
}
impl Drop for Payload {
    fn drop(&mut self) {
        self.drops.set(self.drops.get() + 1);
    }
}
impl Cellish for Payload {
    fn read(&self) -> i64 {
        self.v
    }
    fn write(&mut self, v: i64) {
        self.v = v;
    }
}
impl Cellish for i64 {
    fn read(&self) -> i64 {
        *self
    }
    fn write(&mut self, v: i64) {
        *self = v;
    }
}

/// Rc variant: returns (value seen through the concrete handle after a write through the trait object,
/// drops before the last handle goes, drops after)
pub fn rc_round_trip() -> (i64, u32, u32) {
    let drops = alloc::rc::Rc::new(core::cell::Cell::new(0));
    let r = rc_ref_cell_reference(Payload { v: 7, drops: drops.clone() });
    let d: Reference<dyn Cellish> = to_dyn!(Cellish, r.clone());
    d.borrow_mut().write(9);
    let seen = r.borrow().read();
    drop(r);
    let before = drops.get();
    let still = d.borrow().read();
    drop(d);
    (seen + still - 9, before, drops.get())
}

/// Ptr variant over a static
pub fn static_round_trip() -> i64 {
    let a = static_reference!(i64, 5);
    // the argument is an expression with a side effect: it denotes one Reference
    let mut slot = Some(a.clone());
    let d: Reference<dyn Cellish> = to_dyn!(Cellish, slot.take().unwrap());
    d.borrow_mut().write(11);
    let seen = a.borrow().read();
    seen
}
