//! W-node executor: runs the plan on the real node, then judges the recorded history
//! against the reference models (invariants per op) and against twins / restarts /
//! transformed replays of the same history (checks over the history).

use crate::core::Ctx;
use crate::node_models::*;
use crate::node_rig::*;
use crate::plan::{Op, Plan};
use crate::vals::*;

pub fn home_prop(kind: &str) -> &'static str {
    match kind {
        "pid" => "C04",
        "cpid" => "C11",
        "ewma_f" | "ewma_q" | "ma_f" | "ma_q" => "C12",
        "integral" | "derivative" | "a2s" | "v2s" | "p2s" => "C10",
        _ => "C05",
    }
}

pub struct Cmp {
    pub bad: Option<(&'static str, String)>,
    pub skipped: u32,
    pub compared: u32,
}

fn check_num(n: &Num, got: u32, what: &str, cmp: &mut Cmp) {
    match n {
        Num::Unchecked => {}
        Num::Exact(b) => {
            cmp.compared += 1;
            let a = f32::from_bits(*b);
            let g = f32::from_bits(got);
            if !(*b == got || (a == 0.0 && g == 0.0)) && cmp.bad.is_none() {
                cmp.bad = Some((
                    "value_exact",
                    format!("{}: expected exactly {:?}#{:08x}, got {:?}#{:08x}", what, a, b, g, got),
                ));
            }
        }
        Num::A(a) => {
            let g = f32::from_bits(got);
            if !a.usable() {
                cmp.skipped += 1;
                return;
            }
            if !a.well_conditioned(0.0) && a.admits(g) {
                // bound too loose to mean anything: counted as skipped, never as a pass
                cmp.skipped += 1;
                return;
            }
            if !a.well_conditioned(0.0) {
                cmp.skipped += 1;
                return;
            }
            cmp.compared += 1;
            if !a.admits(g) && cmp.bad.is_none() {
                cmp.bad = Some((
                    "value",
                    format!(
                        "{}: model {:e} +- {:e} (x8), implementation {:e}",
                        what, a.v, a.e, g
                    ),
                ));
            }
        }
    }
}

pub fn check_exp(exp: &Exp, out: &Out, check_time: bool) -> Cmp {
    let mut cmp = Cmp { bad: None, skipped: 0, compared: 0 };
    match (exp, out) {
        (Exp::Any, _) => {}
        (Exp::Err(e), Out::Err(g)) if e == g => {}
        (Exp::None, Out::None) => {}
        (Exp::Some(t, ev), Out::Some(gt, gv)) => {
            if check_time && t != gt {
                cmp.bad = Some(("time", format!("expected t={}, got t={}", t, gt)));
                return cmp;
            }
            match (ev, gv) {
                (ExpVal::F(n), Val::F(b)) => check_num(n, *b, "value", &mut cmp),
                (ExpVal::Q(n, (m, s)), Val::Q(b, gm, gs)) => {
                    if cfg!(not(feature = "v_nodim")) && (m, s) != (gm, gs) {
                        cmp.bad = Some((
                            "unit",
                            format!("expected mm^{} s^{}, got mm^{} s^{}", m, s, gm, gs),
                        ));
                        return cmp;
                    }
                    check_num(n, *b, "value", &mut cmp)
                }
                (ExpVal::S(ns), Val::S(bs)) => {
                    check_num(&ns[0], bs[0], "position", &mut cmp);
                    check_num(&ns[1], bs[1], "velocity", &mut cmp);
                    check_num(&ns[2], bs[2], "acceleration", &mut cmp);
                }
                _ => {
                    cmp.bad = Some(("type", format!("unexpected payload {}", show_val(gv))));
                }
            }
        }
        (e, g) => {
            cmp.bad = Some((
                "category",
                format!("expected {}, got {}", show_exp(e), g.show()),
            ));
        }
    }
    cmp
}

pub fn show_exp(e: &Exp) -> String {
    match e {
        Exp::Any => "anything".into(),
        Exp::Err(Er::FromNone) => "Err(FromNone)".into(),
        Exp::Err(Er::Other(k)) => format!("Err(E{})", k),
        Exp::None => "None".into(),
        Exp::Some(t, _) => format!("Some(t={},..)", t),
    }
}

enum Model {
    Pid(PidModel),
    Cpid(CpidModel),
    Ewma(EwmaModel),
    Ma(MaModel),
    IntDer(IntDerModel),
    ToState(ToStateModel),
    Conv,
    Freeze(FreezeModel),
}

fn make_model(plan: &Plan, kind: &str, script: &Script) -> Model {
    match kind {
        "pid" => Model::Pid(PidModel::new(plan)),
        "cpid" => Model::Cpid(CpidModel::new(plan, script.cmd)),
        "ewma_f" => Model::Ewma(EwmaModel::new(plan, false)),
        "ewma_q" => Model::Ewma(EwmaModel::new(plan, true)),
        "ma_f" => Model::Ma(MaModel::new(plan, false)),
        "ma_q" => Model::Ma(MaModel::new(plan, true)),
        "integral" => Model::IntDer(IntDerModel::new(true)),
        "derivative" => Model::IntDer(IntDerModel::new(false)),
        "a2s" => Model::ToState(ToStateModel::new(ToState::A2S)),
        "v2s" => Model::ToState(ToStateModel::new(ToState::V2S)),
        "p2s" => Model::ToState(ToStateModel::new(ToState::P2S)),
        "freeze" => Model::Freeze(FreezeModel::new()),
        _ => Model::Conv,
    }
}

fn op_cat(code: &str) -> u64 {
    match code {
        "S" | "SS" => 1,
        "N" => 2,
        "E" => 3,
        "U" => 4,
        "G" => 5,
        "SET" => 6,
        "RESET" => 7,
        "CS" => 8,
        "CN" => 9,
        "CE" => 10,
        "FS" => 11,
        "FN" => 12,
        "FE" => 13,
        "FOLLOW" => 14,
        "UNFOLLOW" => 15,
        _ => 0,
    }
}

fn recovery_window(kind: &str, cmd_kind: u8) -> usize {
    match kind {
        "integral" | "derivative" | "v2s" => 2,
        "a2s" | "p2s" => 3,
        "cpid" => 1 + cmd_kind as usize,
        _ => 1,
    }
}

/// a moving average asked to update with a sample whose window would start before `i64::MIN`
fn window_starts_before_axis(plan: &Plan, kind: &str, sen: &Out) -> bool {
    matches!(kind, "ma_f" | "ma_q") && sen.time().map_or(false, |t| t.checked_sub(plan.get("window")).is_none())
}

pub fn execute(plan: &Plan, ctx: &mut Ctx) {
    let kind = plan.gets("kind").to_string();
    let kidx = kind_index(&kind) as u64;
    let home = home_prop(&kind);
    let init = initial_script(plan);
    let recs = run_ops(plan, &plan.ops, &init);
    let dimcheck = cfg!(not(feature = "v_nodim"));

    let mut script = init.clone();
    let mut scripts_before: Vec<Script> = Vec::with_capacity(plan.ops.len());
    let mut model = make_model(plan, &kind, &script);
    let mut resets: Vec<usize> = Vec::new();
    // per-op bookkeeping used by the history checks
    let mut u_input: Vec<Option<Out>> = vec![None; plan.ops.len()];
    let mut last_u_input: Option<Out> = None;
    let mut last_u_fol_err = false;
    let mut prev_out = Out::None;
    let mut sensor_changes_since_u = 0u32;
    let mut first_t: Option<i64> = None;
    let mut last_t: Option<i64> = None;
    let mut panicked = false;
    let mut expected_panic = false;
    let mut err_then_present = 0u32; // reach probe state (integral/derivative)
    let mut since_err: Option<u32> = None;
    let mut set_same_ops: Vec<usize> = Vec::new();
    let mut exps: Vec<Option<Exp>> = vec![None; plan.ops.len()];
    let mut clean = true; // fault-free, one fresh strictly newer sample per update
    let mut clean_samples: Vec<(usize, i64, f32)> = Vec::new();

    for (i, op) in plan.ops.iter().enumerate() {
        ctx.cur_op = i;
        scripts_before.push(script.clone());
        if i >= recs.len() {
            break;
        }
        let rec = &recs[i];
        let sen_before = script.sen;
        let cmd_before = script.cmd;
        script_step(plan, &mut script, op);
        if script.sen != sen_before {
            sensor_changes_since_u += 1;
        }
        if let Some(o) = sensor_op(plan, op) {
            if let Some(t) = o.time() {
                first_t.get_or_insert(t);
                last_t = Some(t);
            }
        }
        let mut class = 0u8;

        // ---- what the model expects at this op
        let mut exp = None;
        let mut exp_ret: Option<Option<Er>> = None;
        let mut is_reset = false;
        let mut misdim = false;
        match op.code.as_str() {
            "U" => {
                let input = script.sen;
                u_input[i] = Some(input);
                match fval(&input) {
                    Some((t, x)) if sensor_changes_since_u == 1 && clean_samples.last().map(|l| t > l.1).unwrap_or(true) => clean_samples.push((i, t, x)),
                    _ => clean = false,
                }
                if sensor_changes_since_u == 0 && last_u_input.is_some() {
                    ctx.count("fault.dup");
                }
                if sensor_changes_since_u >= 2 {
                    ctx.count("fault.stall");
                }
                sensor_changes_since_u = 0;
                match input {
                    Out::None => ctx.count("fault.absent"),
                    Out::Err(Er::Other(1)) => ctx.count("fault.err1"),
                    Out::Err(Er::FromNone) => ctx.count("fault.err_from_none"),
                    Out::Err(_) => ctx.count("fault.err2"),
                    _ => {}
                }
                if input.is_err() {
                    since_err = Some(0);
                } else if input.is_some() {
                    if let Some(n) = since_err {
                        since_err = Some(n + 1);
                        if n + 1 == 2 {
                            err_then_present += 1;
                        }
                    }
                } else {
                    since_err = None;
                }
                let fol = if script.following { Some(script.fol) } else { None };
                last_u_fol_err = false;
                let prev_impl = prev_out.f32();
                let step = match &mut model {
                    Model::Pid(m) => m.update(&input),
                    Model::Cpid(m) => {
                        if let Some(Out::Err(_)) = fol {
                            last_u_fol_err = true;
                            ctx.count("fault.follow_err");
                        }
                        m.update(fol.as_ref(), &input)
                    }
                    Model::Ewma(m) => m.update(&input, prev_impl),
                    Model::Ma(m) => m.update(&input),
                    Model::IntDer(m) => m.update(&input, prev_impl),
                    Model::ToState(m) => {
                        if let Out::Some(_, Val::Q(_, um, us)) = input {
                            if (um, us) != m.required_unit() {
                                misdim = true;
                                ctx.count("fault.misdim");
                            }
                        }
                        if misdim && dimcheck {
                            Step { out: Exp::Any, ret: None, reset: false, class: 7 }
                        } else {
                            m.update(&input)
                        }
                    }
                    Model::Conv => Step {
                        out: convert_model(&kind, plan, &input),
                        ret: None,
                        reset: true,
                        class: input.cat(),
                    },
                    Model::Freeze(m) => {
                        match script.cond {
                            Out::Err(_) => ctx.count("fault.cond_err"),
                            Out::None => ctx.count("fault.cond_absent"),
                            _ => {}
                        }
                        m.update(&script.cond, &input)
                    }
                };
                if !last_u_fol_err {
                    last_u_input = Some(input);
                }
                class = step.class;
                is_reset = step.reset;
                exp_ret = step.ret;
                exps[i] = Some(step.out.clone());
                exp = Some(step.out);
            }
            "SET" => {
                if let Model::Cpid(m) = &mut model {
                    let same = !( {
                        let v = f32::from_bits(op.arg(1) as u32);
                        !(op.arg(0) as u8 == m.cmd.0 && v == m.cmd.1)
                    });
                    let differs = m.set(op.arg(0) as u8, op.arg(1) as u32);
                    if differs {
                        ctx.count("fault.cmd_diff");
                        is_reset = true;
                    } else {
                        ctx.count("fault.cmd_same");
                        if same {
                            set_same_ops.push(i);
                        }
                    }
                    exp = Some(m.current());
                    exp_ret = Some(None);
                    class = if differs { 6 } else { 5 };
                }
                let _ = cmd_before;
            }
            "RESET" => {
                if let Model::Cpid(m) = &mut model {
                    m.reset();
                    exp = Some(m.current());
                    is_reset = true;
                }
            }
            "G" => {
                ctx.count_n("fault.extra_get", op.arg(0).clamp(0, 8) as u64);
            }
            "FOLLOW" => ctx.count("fault.follow"),
            "UNFOLLOW" => ctx.count("fault.unfollow"),
            _ => {}
        }
        ctx.sig(kidx << 16 | op_cat(&op.code) << 8 | class as u64);

        // ---- panics
        if let Some(p) = &rec.panic {
            panicked = true;
            if misdim && dimcheck && op.code == "U" {
                expected_panic = true;
                ctx.count("reach.misdim_panic");
                ctx.trace(&format!("{} {} panic(expected)", i, op.code));
            } else if op.code == "U" && window_starts_before_axis(plan, &kind, &script.sen) {
                // defect D7 (recorded in known_findings.jsonl): the moving average computes `now - window`
                ctx.violate(
                    "C12",
                    "panic_window_start_before_time_axis",
                    &kind,
                    format!("op {} ({}): sample {} with window {} ns: panic {:?} at {}", i, op.code, script.sen.show(), plan.get("window"), p.msg, p.short_loc()),
                );
                ctx.trace(&format!("{} {} panic", i, op.code));
            } else {
                ctx.violate(
                    home,
                    "panic",
                    &kind,
                    format!("op {} ({}): panic {:?} at {}", i, op.code, p.msg, p.short_loc()),
                );
                ctx.trace(&format!("{} {} panic", i, op.code));
            }
            break;
        }
        if misdim && dimcheck && op.code == "U" {
            ctx.violate(
                "C10",
                "misdim_no_panic",
                &kind,
                format!("op {}: wrongly dimensioned sample {} accepted without panic", i, script.sen.show()),
            );
        }
        ctx.trace(&format!(
            "{} {} ret={:?} out={}",
            i,
            op.code,
            rec.ret,
            rec.out.show()
        ));

        // ---- invariants
        if !rec.pure_reads {
            ctx.violate("C05", "get_purity", &kind, format!("op {}: consecutive get() calls differ", i));
        }
        match &exp {
            Some(e) => {
                let check_time = home != "C12";
                let cmp = check_exp(e, &rec.out, check_time);
                ctx.count_n("n.value_compared", cmp.compared as u64);
                ctx.count_n("n.ill_conditioned_skipped", cmp.skipped as u64);
                if let Some((what, detail)) = cmp.bad {
                    ctx.violate(home, &format!("model_{}", what), &kind, format!("op {} ({}): {}", i, op.code, detail));
                } else if cmp.compared > 0 {
                    // anchor models on the verified output
                    if let (Model::ToState(m), Out::Some(_, Val::S(s))) = (&mut model, &rec.out) {
                        m.anchor([f32::from_bits(s[0]), f32::from_bits(s[1]), f32::from_bits(s[2])]);
                    }
                }
                if let Some(er) = exp_ret {
                    if rec.ret != Some(er) {
                        ctx.violate(
                            home,
                            "update_return",
                            &kind,
                            format!("op {} ({}): expected return {:?}, got {:?}", i, op.code, er, rec.ret),
                        );
                    }
                }
                // C12 convexity / constant / first-sample, from the model's own bookkeeping
                match (&model, &rec.out) {
                    (Model::Ewma(m), Out::Some(..)) if op.code == "U" => {
                        if let (Some(g), Exp::Some(_, ExpVal::F(Num::A(a)) | ExpVal::Q(Num::A(a), _))) =
                            (rec.out.f32(), &m.cached)
                        {
                            let slack = 8.0 * a.e + 1e-30;
                            if a.usable() && ((g as f64) < m.lo as f64 - slack || (g as f64) > m.hi as f64 + slack) {
                                ctx.violate("C12", "convexity", &kind, format!("op {}: output {:e} outside [{:e},{:e}]", i, g, m.lo, m.hi));
                            }
                        }
                        if m.first {
                            ctx.count("reach.ewma_first_sample");
                        }
                    }
                    (Model::Ma(m), Out::Some(..)) if op.code == "U" => {
                        if let (Some(g), Exp::Some(_, ExpVal::F(Num::A(a)) | ExpVal::Q(Num::A(a), _))) =
                            (rec.out.f32(), &m.cached)
                        {
                            let slack = 8.0 * a.e + 1e-30;
                            if a.usable() && ((g as f64) < m.lo as f64 - slack || (g as f64) > m.hi as f64 + slack) {
                                ctx.violate("C12", "convexity", &kind, format!("op {}: output {:e} outside [{:e},{:e}] of the {} retained samples", i, g, m.lo, m.hi, m.retained));
                            }
                            if !m.weights_ok {
                                ctx.violate("C12", "harness_model_weights", &kind, format!("op {}: model weights not a partition of the window", i));
                            }
                            if m.retained >= 2 {
                                ctx.count("reach.ma_multi_sample_window");
                            }
                        }
                    }
                    _ => {}
                }
                if let (Model::Cpid(m), true) = (&model, kind == "cpid") {
                    if rec.last_request != m.last_request {
                        ctx.violate("C11", "last_request", &kind, format!("op {}: get_last_request {:?}, expected {:?}", i, rec.last_request, m.last_request));
                    }
                }
            }
            None => {
                // nothing happened to the node: its output must not change
                if rec.out != prev_out {
                    ctx.violate(
                        "C05",
                        "get_purity",
                        &kind,
                        format!("op {} ({}): output changed from {} to {} without update/set", i, op.code, prev_out.show(), rec.out.show()),
                    );
                }
            }
        }
        // stale-error monitor (every kind except freeze)
        if kind != "freeze" {
            if let Out::Err(e) = rec.out {
                let ok = match (&last_u_input, last_u_fol_err) {
                    (_, true) => true, // followed-getter error: nothing asserted (U)
                    (Some(Out::Err(le)), _) => *le == e,
                    _ => false,
                };
                if !ok {
                    ctx.violate(
                        "C05",
                        "stale_error",
                        &kind,
                        format!(
                            "op {} ({}): get() = {} but the input at the most recent update returned {}",
                            i,
                            op.code,
                            rec.out.show(),
                            last_u_input.map(|o| o.show()).unwrap_or("nothing (never updated)".into())
                        ),
                    );
                }
            }
        }
        if is_reset {
            resets.push(i);
            ctx.nontrivial = true;
        }
        if class >= 3 {
            ctx.nontrivial = true;
        }
        prev_out = rec.out;
    }
    if err_then_present > 0 {
        ctx.count_n("reach.err_then_2_present", err_then_present as u64);
    }
    if let (Some(a), Some(b)) = (first_t, last_t) {
        ctx.sim_ns += (b as i128 - a as i128).max(0);
    }
    if panicked && !expected_panic {
        return;
    }
    let n = recs.len().min(plan.ops.len());
    if panicked {
        // expected misdim panic: the run ends for that node
        return;
    }

    // ------------------------------------------------------------ history checks

    // (H1) restart equivalence at reset events
    let reset_kinds = kind != "freeze";
    if reset_kinds {
        let mut done = 0;
        for &r in resets.iter().rev() {
            if done >= 6 {
                break;
            }
            // converters reset at every event: a couple of shadows suffice
            if home_prop(&kind) == "C05" && done >= 2 {
                break;
            }
            done += 1;
            ctx.count("fault.restart");
            let shadow = run_ops(plan, &plan.ops[r..n], &scripts_before[r]);
            for (j, s) in shadow.iter().enumerate() {
                let p = &recs[r + j];
                if s.panic.is_some() {
                    ctx.violate("C05", "restart_equivalence", &kind, format!("restart at op {}: shadow panicked at op {}", r, r + j));
                    break;
                }
                if s.out != p.out || s.ret != p.ret {
                    ctx.violate(
                        "C05",
                        "restart_equivalence",
                        &kind,
                        format!(
                            "reset at op {}: at op {} the stream returns {} (ret {:?}) but a newly constructed one fed the events from the reset onward returns {} (ret {:?})",
                            r, r + j, p.out.show(), p.ret, s.out.show(), s.ret
                        ),
                    );
                    break;
                }
            }
            if r + 1 < n {
                ctx.count("reach.present_after_reset");
            }
        }
    }

    // (H2) absent deletion for the kinds that ignore absent samples
    // (not in histories with a flapping input: deleting an update would move the flap to another one)
    if matches!(kind.as_str(), "ewma_f" | "ewma_q" | "ma_f" | "ma_q" | "a2s" | "v2s" | "p2s") && !plan.ops.iter().any(|o| o.code == "FLAP") {
        let mut keep: Vec<usize> = Vec::new();
        let mut any = false;
        for i in 0..n {
            if plan.ops[i].code == "U" && u_input[i] == Some(Out::None) {
                any = true;
                continue;
            }
            keep.push(i);
        }
        if any {
            ctx.count("reach.absent_deletion_twin");
            let ops: Vec<Op> = keep.iter().map(|&i| plan.ops[i].clone()).collect();
            let twin = run_ops(plan, &ops, &init);
            // compare after every non-absent update event, from the first one that
            // follows a deleted event
            let mut seen_deleted = false;
            let mut ki = 0;
            for i in 0..n {
                if ki < keep.len() && keep[ki] == i {
                    if seen_deleted && plan.ops[i].code == "U" && ki < twin.len() {
                        if twin[ki].out != recs[i].out {
                            ctx.violate(
                                "C05",
                                "absent_deletion",
                                &kind,
                                format!(
                                    "op {}: with the absent events deleted the stream returns {} instead of {}",
                                    i, twin[ki].out.show(), recs[i].out.show()
                                ),
                            );
                            break;
                        }
                    }
                    ki += 1;
                } else {
                    seen_deleted = true;
                }
            }
        }
    }

    // (H3) read independence: drop every extra-get op
    if plan.ops[..n].iter().any(|o| o.code == "G") {
        let keep: Vec<usize> = (0..n).filter(|&i| plan.ops[i].code != "G").collect();
        let ops: Vec<Op> = keep.iter().map(|&i| plan.ops[i].clone()).collect();
        let twin = run_ops(plan, &ops, &init);
        for (ki, &i) in keep.iter().enumerate() {
            if ki < twin.len() && (twin[ki].out != recs[i].out || twin[ki].ret != recs[i].ret) {
                ctx.violate(
                    "C05",
                    "read_independence",
                    &kind,
                    format!("op {}: without the extra reads the stream returns {} instead of {}", i, twin[ki].out.show(), recs[i].out.show()),
                );
                break;
            }
        }
    }

    // (H4) bounded recovery once faults stop
    if kind != "freeze" {
        // suffix of U ops with present, strictly increasing inputs and no command change
        let mut suffix: Vec<usize> = Vec::new();
        let mut last_time = i64::MAX;
        for i in (0..n).rev() {
            let op = &plan.ops[i];
            match op.code.as_str() {
                "U" => match u_input[i] {
                    Some(Out::Some(t, _)) if t < last_time => {
                        // misdimensioned / follow faults end the clean suffix
                        suffix.push(i);
                        last_time = t;
                    }
                    _ => break,
                },
                "SET" | "RESET" | "FOLLOW" | "UNFOLLOW" | "FS" | "FN" | "FE" | "CS" | "CN" | "CE" => break,
                _ => {}
            }
        }
        suffix.reverse();
        // require a fault before the suffix, otherwise this is just start-up
        let w = recovery_window(&kind, script.cmd.0);
        if !suffix.is_empty() && suffix[0] > 0 && !(kind == "cpid" && scripts_before[suffix[0]].following) {
            if suffix.len() >= w {
                ctx.count("reach.recovery_checked");
                if !recs[suffix[w - 1]].out.is_some() {
                    ctx.violate(
                        "C05",
                        "bounded_recovery",
                        &kind,
                        format!("after the last fault, {} present samples did not bring back a present output (op {}: {})", w, suffix[w - 1], recs[suffix[w - 1]].out.show()),
                    );
                }
            }
            for &i in &suffix {
                if recs[i].out.is_err() {
                    ctx.violate(
                        "C05",
                        "bounded_recovery",
                        &kind,
                        format!("op {}: still {} although the input has recovered", i, recs[i].out.show()),
                    );
                    break;
                }
            }
        }
    }

    // (H5) time-shift twin: C04 (pid), C10 (integral, derivative, to-state), bit-exact
    if matches!(kind.as_str(), "pid" | "integral" | "derivative" | "a2s" | "v2s" | "p2s") && plan.get("shift") != 0 {
        let c = plan.get("shift");
        let ops: Vec<Op> = plan.ops[..n]
            .iter()
            .map(|o| {
                let mut o = o.clone();
                if matches!(o.code.as_str(), "S" | "SS") {
                    o.a[0] += c;
                }
                o
            })
            .collect();
        let twin = run_ops(plan, &ops, &init);
        ctx.count("reach.time_shift_twin");
        for i in 0..n.min(twin.len()) {
            let shifted = match recs[i].out {
                Out::Some(t, v) => Out::Some(t + c, v),
                o => o,
            };
            if twin[i].out != shifted {
                ctx.violate(
                    home,
                    "time_shift",
                    &kind,
                    format!("op {}: with all timestamps shifted by {} the stream returns {} instead of {}", i, c, twin[i].out.show(), shifted.show()),
                );
                break;
            }
        }
    }

    // (H6) power-of-two scaling twin: C04
    if kind == "pid" && plan.get("scale_k") != 0 {
        let k = plan.get("scale_k") as i32;
        let f = (2.0f32).powi(k);
        let mut p2 = plan.clone();
        p2.setf("setpoint", plan.getf("setpoint") * f);
        let ops: Vec<Op> = plan.ops[..n]
            .iter()
            .map(|o| {
                let mut o = o.clone();
                if o.code == "S" {
                    o.a[1] = (f32::from_bits(o.a[1] as u32) * f).to_bits() as i64;
                }
                o
            })
            .collect();
        let twin = run_ops(&p2, &ops, &init);
        ctx.count("reach.scaling_twin");
        for i in 0..n.min(twin.len()) {
            let ok = match (recs[i].out, twin[i].out) {
                (Out::Some(t, Val::F(a)), Out::Some(t2, Val::F(b))) => {
                    let a = f32::from_bits(a);
                    let b = f32::from_bits(b);
                    let in_range = |x: f32| x == 0.0 || (x.abs() > 1e-25 && x.abs() < 1e25);
                    t == t2 && (!in_range(a) || !in_range(b) || !a.is_finite() || a * f == b)
                }
                (a, b) => a == b,
            };
            if !ok {
                ctx.violate(
                    "C04",
                    "pow2_scaling",
                    &kind,
                    format!("op {}: scaling setpoint and samples by 2^{} gives {} instead of 2^{} x {}", i, k, twin[i].out.show(), k, recs[i].out.show()),
                );
                break;
            }
        }
    }

    // (H9) composition twins on fault-free histories: C04 (PID from primitive streams), C10
    if clean && !clean_samples.is_empty() && plan.ops[..n].iter().all(|o| matches!(o.code.as_str(), "S" | "U" | "G")) {
        let samples: Vec<(i64, f32)> = clean_samples.iter().map(|(_, t, x)| (*t, *x)).collect();
        let mut report = |ctx: &mut Ctx, prop: &str, j: usize, exp: &Exp, twin: &Out, what: &str| {
            let cmp = check_exp(exp, twin, true);
            if let Some((k, detail)) = cmp.bad {
                ctx.violate(prop, "composed_twin", &kind, format!("sample {} (op {}): {} assembled from the crate's primitive streams disagrees with the model ({}): {}", j, clean_samples[j].0, what, k, detail));
                true
            } else {
                false
            }
        };
        match kind.as_str() {
            "pid" => {
                ctx.count("reach.composed_twin");
                let twin = crate::node_twins::composed_pid(plan.getf("kp"), plan.getf("ki"), plan.getf("kd"), plan.getf("setpoint"), &samples);
                for (j, (i, _, _)) in clean_samples.iter().enumerate() {
                    if let Some(e) = &exps[*i] {
                        if report(ctx, "C04", j, e, &twin[j], "the PID") {
                            break;
                        }
                    }
                }
            }
            "a2s" | "p2s" | "v2s" => {
                ctx.count("reach.composed_twin");
                let which = match kind.as_str() {
                    "a2s" => ToState::A2S,
                    "p2s" => ToState::P2S,
                    _ => ToState::V2S,
                };
                // un-anchored model: the twin accumulates its own roundings
                let mut m = ToStateModel::new(which);
                let twin = match which {
                    ToState::A2S => crate::node_twins::composed_a2s(&samples),
                    ToState::P2S => crate::node_twins::composed_p2s(&samples),
                    ToState::V2S => crate::node_twins::composed_v2s(&samples),
                };
                let u = m.required_unit();
                for (j, (t, x)) in samples.iter().enumerate() {
                    let step = m.update(&Out::Some(*t, Val::Q(x.to_bits(), u.0, u.1)));
                    let bits = |o: &Out| o.f32().map(|v| fbits(v));
                    let composed = match which {
                        // (vel, pos): state = (pos, vel, acc = sample)
                        ToState::A2S => match (bits(&twin[j].1), bits(&twin[j].0)) {
                            (Some(p), Some(v)) => Out::Some(*t, Val::S([p, v, x.to_bits()])),
                            _ => Out::None,
                        },
                        // (vel, acc): state = (pos = sample, vel, acc)
                        ToState::P2S => match (bits(&twin[j].0), bits(&twin[j].1)) {
                            (Some(v), Some(a)) => Out::Some(*t, Val::S([x.to_bits(), v, a])),
                            _ => Out::None,
                        },
                        // (acc, pos): state = (pos, vel = sample, acc)
                        ToState::V2S => match (bits(&twin[j].1), bits(&twin[j].0)) {
                            (Some(p), Some(a)) => Out::Some(*t, Val::S([p, x.to_bits(), a])),
                            _ => Out::None,
                        },
                    };
                    if report(ctx, "C10", j, &step.out, &composed, "the state") {
                        break;
                    }
                }
            }
            _ => {}
        }
    }

    // (H7) C11: setting a command equal to the current one changes nothing
    if kind == "cpid" && !set_same_ops.is_empty() {
        let keep: Vec<usize> = (0..n).filter(|i| !set_same_ops.contains(i)).collect();
        let ops: Vec<Op> = keep.iter().map(|&i| plan.ops[i].clone()).collect();
        let twin = run_ops(plan, &ops, &init);
        ctx.count("reach.set_same_twin");
        for (ki, &i) in keep.iter().enumerate() {
            if ki < twin.len() && (twin[ki].out != recs[i].out || twin[ki].ret != recs[i].ret) {
                ctx.violate(
                    "C11",
                    "set_same_noop",
                    &kind,
                    format!("op {}: without the set() of an equal command the controller returns {} instead of {}", i, twin[ki].out.show(), recs[i].out.show()),
                );
                break;
            }
        }
    }

    // (H8) C12: f32 and Quantity variants produce the same numbers
    if matches!(kind.as_str(), "ewma_f" | "ewma_q" | "ma_f" | "ma_q") {
        let other = match kind.as_str() {
            "ewma_f" => "ewma_q",
            "ewma_q" => "ewma_f",
            "ma_f" => "ma_q",
            _ => "ma_f",
        };
        let mut p2 = plan.clone();
        p2.sets("kind", other);
        let twin = run_ops(&p2, &plan.ops[..n], &init);
        ctx.count("reach.variant_twin");
        for i in 0..n.min(twin.len()) {
            if twin[i].panic.is_some() && plan.ops[i].code == "U" && window_starts_before_axis(plan, other, &scripts_before.get(i).map(|s| s.sen).unwrap_or(Out::None)) {
                ctx.violate("C12", "panic_window_start_before_time_axis", other, format!("op {}: the {} variant panicked as well (window {} ns)", i, other, plan.get("window")));
                break;
            }
            if twin[i].panic.is_some() {
                ctx.violate("C12", "panic", other, format!("op {}: the {} variant panicked: {:?}", i, other, twin[i].panic.as_ref().map(|p| p.msg.clone())));
                break;
            }
            let ok = match (recs[i].out, twin[i].out) {
                (Out::Some(_, a), Out::Some(_, b)) => {
                    let fa = Out::Some(0, a).f32().unwrap_or(0.0);
                    let fb = Out::Some(0, b).f32().unwrap_or(0.0);
                    if fa.is_finite() && fb.is_finite() {
                        // "the same numbers" up to rounding relative to the contributing samples
                        // (a re-associated but algebraically equal formula must not be flagged)
                        let vmax = plan.ops[..n]
                            .iter()
                            .filter(|o| o.code == "S")
                            .map(|o| o.f(1).abs() as f64)
                            .fold(0.0f64, f64::max);
                        ((fa as f64) - (fb as f64)).abs() <= 256.0 * crate::approx::U * vmax.max(1e-30)
                    } else {
                        fa.to_bits() == fb.to_bits() || (fa.is_nan() && fb.is_nan())
                    }
                }
                (a, b) => a.cat() == b.cat(),
            };
            if !ok {
                ctx.violate(
                    "C12",
                    "variant_agreement",
                    &kind,
                    format!("op {}: {} returns {} but {} returns {}", i, kind, recs[i].out.show(), other, twin[i].out.show()),
                );
                break;
            }
        }
    }
}

