//! W-comb: the stateless combinator streams (C02), with the timestamp rules (C03) and
//! the scratch-slot sweep (C16a) riding on it. Leaves are scripted sensors / clocks; a
//! DAG of real rrtk combinators is built from the plan header; after every op every node
//! is read and judged against a table-driven model fed with what its own direct inputs
//! returned at that moment (compositional judging: stateless nodes, pure reads).

use crate::core::{guarded, Ctx, Tier};
use crate::node_models::{convert_model, EwmaModel, Exp, FreezeModel, IntDerModel, PidModel};
use crate::node_oracles::check_exp;
use rrtk::streams::control::{EWMAStream, PIDControllerStream};
use crate::plan::{fb, Plan};
use crate::rng::Rng;
use crate::stubs::*;
use crate::vals::*;
use rrtk::streams::converters::*;
use rrtk::streams::flow::*;
use rrtk::streams::logic::*;
use rrtk::streams::math::*;
use rrtk::streams::*;
use rrtk::*;

#[derive(Clone, Debug, PartialEq)]
pub struct NodeSpec {
    pub kind: String,
    /// input references: "f0".."f4" float leaves, "b0".."b2" bool leaves, "q0".."q2"
    /// quantity leaves, "n<i>" earlier node
    pub ins: Vec<String>,
    /// clock index for expirer / n2v
    pub clock: usize,
    /// expiry limit (ns) or substitute value bits
    pub param: i64,
}

#[derive(Clone, Copy, PartialEq, Eq, Debug)]
pub enum Ty {
    F,
    B,
    Q,
}

impl NodeSpec {
    pub fn to_text(&self) -> String {
        format!("{}:{}:{}:{}", self.kind, self.ins.join(","), self.clock, self.param)
    }
    pub fn parse(s: &str) -> Option<NodeSpec> {
        let mut it = s.split(':');
        let kind = it.next()?.to_string();
        let ins = it.next()?.split(',').filter(|x| !x.is_empty()).map(|x| x.to_string()).collect();
        let clock = it.next()?.parse().ok()?;
        let param = it.next()?.parse().ok()?;
        Some(NodeSpec { kind, ins, clock, param })
    }
}

pub fn parse_nodes(plan: &Plan) -> Vec<NodeSpec> {
    plan.gets("nodes").split(';').filter(|s| !s.is_empty()).filter_map(NodeSpec::parse).collect()
}
pub fn nodes_text(n: &[NodeSpec]) -> String {
    n.iter().map(|x| x.to_text()).collect::<Vec<_>>().join(";")
}

/// output type of a node kind given the type suffix in its name (kinds are written
/// e.g. "sum.f", "latest.b", "and")
pub fn out_ty(kind: &str) -> Ty {
    if matches!(kind, "and" | "or" | "not") || kind.ends_with(".b") {
        Ty::B
    } else if kind.ends_with(".q") {
        Ty::Q
    } else {
        Ty::F
    }
}
/// Stateful nodes of the mixed graph (W-stream): they change only when the scheduler updates them.
pub fn is_stateful(kind: &str) -> bool {
    matches!(kind, "pid.f" | "ewma.f" | "q2f.f" | "freeze.f" | "integral.q" | "derivative.q" | "ewma.q")
}
fn home_of(kind: &str) -> &'static str {
    match kind {
        "pid.f" => "C04",
        "ewma.f" | "ewma.q" => "C12",
        "integral.q" | "derivative.q" => "C10",
        _ => "C05",
    }
}
enum SModel {
    Pid(PidModel),
    Ewma(EwmaModel),
    IntDer(IntDerModel),
    Conv,
    Freeze(FreezeModel),
}

fn base(kind: &str) -> &str {
    kind.split('.').next().unwrap_or(kind)
}

const NF: usize = 8;
const NB: usize = 3;
const NQ: usize = 3;
const NC: usize = 2;

struct Rig {
    lf: Vec<SensorHandle<f32>>,
    lb: Vec<SensorHandle<bool>>,
    lq: Vec<SensorHandle<Quantity>>,
    ck: Vec<ClockHandle>,
    nf: Vec<Option<Reference<dyn Getter<f32, E>>>>,
    nb: Vec<Option<Reference<dyn Getter<bool, E>>>>,
    nq: Vec<Option<Reference<dyn Getter<Quantity, E>>>>,
    /// header `leafref` != 0: ONE Reference per leaf, shared by every node that reads the leaf (empty
    /// otherwise: every use gets its own Rc handle over the same scripted cell)
    cf: Vec<Reference<dyn Getter<f32, E>>>,
    cb: Vec<Reference<dyn Getter<bool, E>>>,
    cq: Vec<Reference<dyn Getter<Quantity, E>>>,
    /// header `clockref` != 0: ONE Reference per scripted clock, shared by every node that reads it (and by
    /// the harness, which can then hold a shared borrow of the clock across a read of a node)
    cc: Vec<Reference<dyn TimeGetter<E>>>,
}

/// One shared Reference to a scripted clock: 1 Rc<RefCell>, 3 Arc<RwLock> (both tell a shared borrow from
/// an exclusive one).
fn shared_clock(mode: i64, c: SimClock) -> Reference<dyn TimeGetter<E>> {
    #[cfg(any(feature = "v_libm", feature = "v_micromath"))]
    let mode = if mode > 1 { 1 } else { mode };
    match mode {
        #[cfg(not(any(feature = "v_libm", feature = "v_micromath")))]
        3 => {
            let a: std::sync::Arc<std::sync::RwLock<dyn TimeGetter<E>>> = std::sync::Arc::new(std::sync::RwLock::new(c));
            Reference::from_arc_rw_lock(a)
        }
        _ => dyn_time(c),
    }
}

/// One shared Reference to a leaf sensor: 1 Rc<RefCell>, 2 Arc<Mutex> (not re-entrant: a combinator that
/// still holds its borrow of one input while it reads another input backed by the same leaf never
/// returns), 3 Arc<RwLock>.
fn shared_leaf<T: Clone + 'static>(mode: i64, s: Sensor<T>) -> Reference<dyn Getter<T, E>> {
    // (the lock-backed variants exist only when rrtk is built with std)
    #[cfg(any(feature = "v_libm", feature = "v_micromath"))]
    let mode = if mode > 1 { 1 } else { mode };
    match mode {
        #[cfg(not(any(feature = "v_libm", feature = "v_micromath")))]
        2 => {
            let a: std::sync::Arc<std::sync::Mutex<dyn Getter<T, E>>> = std::sync::Arc::new(std::sync::Mutex::new(s));
            Reference::from_arc_mutex(a)
        }
        #[cfg(not(any(feature = "v_libm", feature = "v_micromath")))]
        3 => {
            let a: std::sync::Arc<std::sync::RwLock<dyn Getter<T, E>>> = std::sync::Arc::new(std::sync::RwLock::new(s));
            Reference::from_arc_rw_lock(a)
        }
        _ => dyn_getter::<T, _>(s),
    }
}

trait Payload: Clone + 'static {
    fn slot(rig: &Rig, name: &str) -> Option<Reference<dyn Getter<Self, E>>>;
    fn from_param(param: i64) -> Self;
}
impl Payload for f32 {
    fn slot(rig: &Rig, name: &str) -> Option<Reference<dyn Getter<f32, E>>> {
        let i: usize = name[1..].parse().ok()?;
        match &name[..1] {
            "f" if !rig.cf.is_empty() => rig.cf.get(i).cloned(),
            "f" => rig.lf.get(i).map(|h| dyn_getter::<f32, _>(h.sensor())),
            "n" => rig.nf.get(i).cloned().flatten(),
            _ => None,
        }
    }
    fn from_param(param: i64) -> f32 {
        f32::from_bits(param as u32)
    }
}
impl Payload for bool {
    fn slot(rig: &Rig, name: &str) -> Option<Reference<dyn Getter<bool, E>>> {
        let i: usize = name[1..].parse().ok()?;
        match &name[..1] {
            "b" if !rig.cb.is_empty() => rig.cb.get(i).cloned(),
            "b" => rig.lb.get(i).map(|h| dyn_getter::<bool, _>(h.sensor())),
            "n" => rig.nb.get(i).cloned().flatten(),
            _ => None,
        }
    }
    fn from_param(param: i64) -> bool {
        param != 0
    }
}
impl Payload for Quantity {
    fn slot(rig: &Rig, name: &str) -> Option<Reference<dyn Getter<Quantity, E>>> {
        let i: usize = name[1..].parse().ok()?;
        match &name[..1] {
            "q" if !rig.cq.is_empty() => rig.cq.get(i).cloned(),
            "q" => rig.lq.get(i).map(|h| dyn_getter::<Quantity, _>(h.sensor())),
            "n" => rig.nq.get(i).cloned().flatten(),
            _ => None,
        }
    }
    fn from_param(param: i64) -> Quantity {
        Quantity::dimensionless(f32::from_bits(param as u32))
    }
}

fn arr<T: ?Sized, const N: usize>(v: &[Reference<T>]) -> [Reference<T>; N] {
    std::array::from_fn(|i| v[i].clone())
}

macro_rules! nary {
    ($ty:ident, $t:ty, $v:expr) => {
        match $v.len() {
            1 => dyn_getter::<$t, _>($ty::<$t, 1, E>::new(arr(&$v))),
            2 => dyn_getter::<$t, _>($ty::<$t, 2, E>::new(arr(&$v))),
            3 => dyn_getter::<$t, _>($ty::<$t, 3, E>::new(arr(&$v))),
            4 => dyn_getter::<$t, _>($ty::<$t, 4, E>::new(arr(&$v))),
            5 => dyn_getter::<$t, _>($ty::<$t, 5, E>::new(arr(&$v))),
            6 => dyn_getter::<$t, _>($ty::<$t, 6, E>::new(arr(&$v))),
            7 => dyn_getter::<$t, _>($ty::<$t, 7, E>::new(arr(&$v))),
            8 => dyn_getter::<$t, _>($ty::<$t, 8, E>::new(arr(&$v))),
            9 => dyn_getter::<$t, _>($ty::<$t, 9, E>::new(arr(&$v))),
            10 => dyn_getter::<$t, _>($ty::<$t, 10, E>::new(arr(&$v))),
            11 => dyn_getter::<$t, _>($ty::<$t, 11, E>::new(arr(&$v))),
            12 => dyn_getter::<$t, _>($ty::<$t, 12, E>::new(arr(&$v))),
            n => panic!("harness: n-ary node with {} inputs", n),
        }
    };
}

/// node kinds generic in the payload type
fn build_generic<T: Payload>(rig: &Rig, spec: &NodeSpec) -> Option<Reference<dyn Getter<T, E>>> {
    let b = base(&spec.kind);
    // clock index < 100: one of the scripted clocks; 100 + k: the timestamp of f32 leaf k read through
    // the crate's TimeGetterFromGetter ("expire relative to the newest reading of that sensor") - with
    // shared leaf References the clock then reads the very object the node may be reading
    let clock = || -> Reference<dyn TimeGetter<E>> {
        if spec.clock >= 100 {
            let leaf = <f32 as Payload>::slot(rig, &format!("f{}", (spec.clock - 100) % NF)).expect("leaf");
            dyn_time(TimeGetterFromGetter::<f32, dyn Getter<f32, E>, E>::new(leaf))
        } else if !rig.cc.is_empty() {
            rig.cc[spec.clock % NC].clone()
        } else {
            dyn_time(rig.ck[spec.clock % NC].clock())
        }
    };
    Some(match b {
        "latest" => {
            let v: Vec<_> = spec.ins.iter().filter_map(|n| T::slot(rig, n)).collect();
            if v.is_empty() || v.len() != spec.ins.len() {
                return None;
            }
            nary!(Latest, T, v)
        }
        "if" => {
            let c = bool::slot(rig, spec.ins.first()?)?;
            let i = T::slot(rig, spec.ins.get(1)?)?;
            dyn_getter::<T, _>(IfStream::<T, _, _, E>::new(c, i))
        }
        "ifelse" => {
            let c = bool::slot(rig, spec.ins.first()?)?;
            let a = T::slot(rig, spec.ins.get(1)?)?;
            let bb = T::slot(rig, spec.ins.get(2)?)?;
            dyn_getter::<T, _>(IfElseStream::<T, _, _, _, E>::new(c, a, bb))
        }
        "expirer" => {
            let i = T::slot(rig, spec.ins.first()?)?;
            dyn_getter::<T, _>(Expirer::<T, _, _, E>::new(i, clock(), Time(spec.param)))
        }
        "n2e" => {
            let i = T::slot(rig, spec.ins.first()?)?;
            dyn_getter::<T, _>(NoneToError::<T, _, E>::new(i))
        }
        "n2v" => {
            let i = T::slot(rig, spec.ins.first()?)?;
            dyn_getter::<T, _>(NoneToValue::<T, _, _, E>::new(i, clock(), T::from_param(spec.param)))
        }
        _ => return None,
    })
}

macro_rules! build_num {
    ($rig:expr, $spec:expr, $t:ty) => {{
        let rig = $rig;
        let spec = $spec;
        let b = base(&spec.kind);
        let ins: Vec<_> = spec.ins.iter().filter_map(|n| <$t as Payload>::slot(rig, n)).collect();
        if matches!(b, "if" | "ifelse") {
            // the first input is the boolean condition
            build_generic::<$t>(rig, spec)
        } else if ins.len() != spec.ins.len() {
            None
        } else {
            match b {
                "sum" if !ins.is_empty() => Some(nary!(SumStream, $t, ins)),
                "prod" if !ins.is_empty() => Some(nary!(ProductStream, $t, ins)),
                "sum2" if ins.len() == 2 => Some(dyn_getter::<$t, _>(Sum2::<$t, _, _, E>::new(ins[0].clone(), ins[1].clone()))),
                "prod2" if ins.len() == 2 => Some(dyn_getter::<$t, _>(Product2::<$t, _, _, E>::new(ins[0].clone(), ins[1].clone()))),
                "diff" if ins.len() == 2 => Some(dyn_getter::<$t, _>(DifferenceStream::<$t, _, _, E>::new(ins[0].clone(), ins[1].clone()))),
                "quot" if ins.len() == 2 => Some(dyn_getter::<$t, _>(QuotientStream::<$t, _, _, E>::new(ins[0].clone(), ins[1].clone()))),
                _ => build_generic::<$t>(rig, spec),
            }
        }
    }};
}

fn build_stateful(rig: &Rig, idx: usize, spec: &NodeSpec, plan: &Plan) -> (Option<Reference<dyn Getter<f32, E>>>, Option<Reference<dyn Getter<Quantity, E>>>) {
    let key = |k: &str| plan.getf(&format!("n{}.{}", idx, k));
    let first = spec.ins.first().map(|s| s.as_str()).unwrap_or("");
    match spec.kind.as_str() {
        "pid.f" => (
            f32::slot(rig, first).map(|i| dyn_getter::<f32, _>(PIDControllerStream::new(i, key("sp"), PIDKValues::new(key("kp"), key("ki"), key("kd"))))),
            None,
        ),
        "ewma.f" => (f32::slot(rig, first).map(|i| dyn_getter::<f32, _>(EWMAStream::<f32, _, E>::new(i, key("s")))), None),
        "q2f.f" => (Quantity::slot(rig, first).map(|i| dyn_getter::<f32, _>(QuantityToFloat::new(i))), None),
        "freeze.f" => {
            let c = bool::slot(rig, first);
            let i = f32::slot(rig, spec.ins.get(1).map(|s| s.as_str()).unwrap_or(""));
            match (c, i) {
                (Some(c), Some(i)) => (Some(dyn_getter::<f32, _>(FreezeStream::<f32, _, _, E>::new(c, i))), None),
                _ => (None, None),
            }
        }
        "integral.q" => (None, Quantity::slot(rig, first).map(|i| dyn_getter::<Quantity, _>(IntegralStream::new(i)))),
        "derivative.q" => (None, Quantity::slot(rig, first).map(|i| dyn_getter::<Quantity, _>(DerivativeStream::new(i)))),
        "ewma.q" => (None, Quantity::slot(rig, first).map(|i| dyn_getter::<Quantity, _>(EWMAStream::<Quantity, _, E>::new(i, key("s"))))),
        _ => (None, None),
    }
}

fn build_node(rig: &mut Rig, idx: usize, spec: &NodeSpec, plan: &Plan) -> bool {
    if is_stateful(&spec.kind) {
        let (f, q) = build_stateful(rig, idx, spec, plan);
        let ok = f.is_some() || q.is_some();
        rig.nf[idx] = f;
        rig.nq[idx] = q;
        return ok;
    }
    match out_ty(&spec.kind) {
        Ty::F => {
            let n = if base(&spec.kind) == "exp" {
                let a = f32::slot(rig, spec.ins.first().map(|s| s.as_str()).unwrap_or(""));
                let b = f32::slot(rig, spec.ins.get(1).map(|s| s.as_str()).unwrap_or(""));
                match (a, b) {
                    (Some(a), Some(b)) => Some(dyn_getter::<f32, _>(ExponentStream::<_, _, E>::new(a, b))),
                    _ => None,
                }
            } else {
                build_num!(&*rig, spec, f32)
            };
            rig.nf[idx] = n;
            rig.nf[idx].is_some()
        }
        Ty::Q => {
            let n = build_num!(&*rig, spec, Quantity);
            rig.nq[idx] = n;
            rig.nq[idx].is_some()
        }
        Ty::B => {
            let n = match spec.kind.as_str() {
                "and" | "or" => {
                    let a = bool::slot(rig, spec.ins.first().map(|s| s.as_str()).unwrap_or(""));
                    let b = bool::slot(rig, spec.ins.get(1).map(|s| s.as_str()).unwrap_or(""));
                    match (a, b) {
                        (Some(a), Some(b)) => Some(if spec.kind == "and" {
                            dyn_getter::<bool, _>(AndStream::<_, _, E>::new(a, b))
                        } else {
                            dyn_getter::<bool, _>(OrStream::<_, _, E>::new(a, b))
                        }),
                        _ => None,
                    }
                }
                "not" => bool::slot(rig, spec.ins.first().map(|s| s.as_str()).unwrap_or(""))
                    .map(|a| dyn_getter::<bool, _>(NotStream::<_, E>::new(a))),
                _ => build_generic::<bool>(rig, spec),
            };
            rig.nb[idx] = n;
            rig.nb[idx].is_some()
        }
    }
}

// ------------------------------------------------------------------ the model

fn tmax(a: i64, b: i64) -> i64 {
    a.max(b)
}

fn num_op(op: &str, a: &Val, b: &Val) -> Option<Val> {
    let f = |x: f32, y: f32| -> f32 {
        match op {
            "add" => x + y,
            "sub" => x - y,
            "mul" => x * y,
            "div" => x / y,
            _ => f32::NAN,
        }
    };
    match (a, b) {
        (Val::F(x), Val::F(y)) => Some(Val::F(fbits(f(f32::from_bits(*x), f32::from_bits(*y))))),
        (Val::Q(x, m1, s1), Val::Q(y, m2, s2)) => {
            let v = fbits(f(f32::from_bits(*x), f32::from_bits(*y)));
            let (m, s) = match op {
                "mul" => (m1 + m2, s1 + s2),
                "div" => (m1 - m2, s1 - s2),
                _ => (*m1, *s1),
            };
            Some(Val::Q(v, m, s))
        }
        _ => None,
    }
}

/// What the model expects of one node: exact outcome, or a set of admissible ones.
pub enum Expect {
    Exactly(Out),
    /// newest-of: any of these (already filtered to the maximal timestamp)
    OneOf(Vec<Out>),
    /// exponent: category and time only (the power function's last ulps are exempt)
    SomeAt(i64),
}

pub fn model(spec: &NodeSpec, ins: &[Out], clock: &Result<i64, Er>) -> Expect {
    use Expect::*;
    let b = base(&spec.kind);
    let first_err = || ins.iter().find_map(|o| if let Out::Err(e) = o { Some(*e) } else { None });
    match b {
        "sum" | "prod" => {
            // '?' while iterating: the earliest erroring input wins
            if let Some(e) = first_err() {
                return Exactly(Out::Err(e));
            }
            let mut acc: Option<(i64, Val)> = None;
            for o in ins {
                if let Out::Some(t, v) = o {
                    acc = Some(match acc {
                        None => (*t, *v),
                        Some((ta, va)) => (
                            tmax(ta, *t),
                            num_op(if b == "sum" { "add" } else { "mul" }, &va, v).unwrap_or(va),
                        ),
                    });
                }
            }
            Exactly(match acc {
                None => Out::None,
                Some((t, v)) => Out::Some(t, v),
            })
        }
        "sum2" | "prod2" => {
            let (x, y) = (ins[0], ins[1]);
            Exactly(match (x, y) {
                (Out::Err(e), _) => Out::Err(e),
                (Out::None, y) => y,
                (Out::Some(..), Out::Err(e)) => Out::Err(e),
                (x @ Out::Some(..), Out::None) => x,
                (Out::Some(t1, a), Out::Some(t2, bv)) => Out::Some(
                    tmax(t1, t2),
                    num_op(if b == "sum2" { "add" } else { "mul" }, &a, &bv).unwrap_or(a),
                ),
            })
        }
        "diff" | "quot" | "exp" => {
            let (x, y) = (ins[0], ins[1]);
            match (x, y) {
                (Out::Err(e), _) => Exactly(Out::Err(e)),
                (_, Out::Err(e)) => Exactly(Out::Err(e)),
                (Out::None, _) => Exactly(Out::None),
                (x @ Out::Some(..), Out::None) => Exactly(x),
                (Out::Some(t1, a), Out::Some(t2, bv)) => {
                    if b == "exp" {
                        // with std the crate's power function IS f32::powf: the value is decided bit for bit
                        // (the no_std back ends are compared across builds by C19 instead)
                        #[cfg(not(any(feature = "v_libm", feature = "v_micromath")))]
                        if let (Val::F(x), Val::F(y)) = (a, bv) {
                            return Exactly(Out::Some(tmax(t1, t2), Val::F(fbits(f32::from_bits(x).powf(f32::from_bits(y))))));
                        }
                        SomeAt(tmax(t1, t2))
                    } else {
                        Exactly(Out::Some(
                            tmax(t1, t2),
                            num_op(if b == "diff" { "sub" } else { "div" }, &a, &bv).unwrap_or(a),
                        ))
                    }
                }
            }
        }
        "latest" => {
            let present: Vec<Out> = ins.iter().filter(|o| o.is_some()).copied().collect();
            if present.is_empty() {
                return Exactly(Out::None);
            }
            let tm = present.iter().filter_map(|o| o.time()).max().unwrap();
            OneOf(present.into_iter().filter(|o| o.time() == Some(tm)).collect())
        }
        "if" => Exactly(match ins[0] {
            Out::Err(e) => Out::Err(e),
            Out::Some(_, Val::B(true)) => ins[1],
            _ => Out::None,
        }),
        "ifelse" => Exactly(match ins[0] {
            Out::Err(e) => Out::Err(e),
            Out::None => Out::None,
            Out::Some(_, Val::B(true)) => ins[1],
            _ => ins[2],
        }),
        "expirer" => Exactly(match ins[0] {
            Out::Err(e) => Out::Err(e),
            Out::None => Out::None,
            Out::Some(t, v) => match clock {
                Err(e) => Out::Err(*e),
                Ok(now) => {
                    if (*now as i128) - (t as i128) > spec.param as i128 {
                        Out::None
                    } else {
                        Out::Some(t, v)
                    }
                }
            },
        }),
        "n2e" => Exactly(match ins[0] {
            Out::None => Out::Err(Er::FromNone),
            o => o,
        }),
        "n2v" => Exactly(match ins[0] {
            Out::None => match clock {
                Err(e) => Out::Err(*e),
                Ok(now) => Out::Some(
                    *now,
                    match out_ty(&spec.kind) {
                        Ty::F => Val::F(spec.param as u32),
                        Ty::B => Val::B(spec.param != 0),
                        Ty::Q => Val::Q(spec.param as u32, 0, 0),
                    },
                ),
            },
            o => o,
        }),
        "and" | "or" => {
            if let Out::Err(e) = ins[0] {
                return Exactly(Out::Err(e));
            }
            if let Out::Err(e) = ins[1] {
                return Exactly(Out::Err(e));
            }
            let bv = |o: &Out| match o {
                Out::Some(_, Val::B(x)) => Some(*x),
                _ => None,
            };
            let (a, c) = (bv(&ins[0]), bv(&ins[1]));
            let t = match (ins[0].time(), ins[1].time()) {
                (Some(x), Some(y)) => Some(tmax(x, y)),
                (Some(x), None) | (None, Some(x)) => Some(x),
                _ => None,
            };
            let dominant = b == "or"; // the absorbing value: false for and, true for or
            let r = if a == Some(dominant) || c == Some(dominant) {
                Some(dominant)
            } else if a.is_none() || c.is_none() {
                None
            } else {
                Some(!dominant)
            };
            Exactly(match (t, r) {
                (Some(t), Some(r)) => Out::Some(t, Val::B(r)),
                _ => Out::None,
            })
        }
        "not" => Exactly(match ins[0] {
            Out::Some(t, Val::B(x)) => Out::Some(t, Val::B(!x)),
            o => o,
        }),
        _ => Exactly(Out::None),
    }
}

// ------------------------------------------------------------------ executor

fn leaf_out(rig_script: &Script, name: &str) -> Option<Out> {
    let i: usize = name[1..].parse().ok()?;
    match &name[..1] {
        "f" => rig_script.f.get(i).copied(),
        "b" => rig_script.b.get(i).copied(),
        "q" => rig_script.q.get(i).copied(),
        _ => None,
    }
}

struct Script {
    f: Vec<Out>,
    b: Vec<Out>,
    q: Vec<Out>,
    ck: Vec<Result<i64, Er>>,
}

fn cat_code(o: &Out) -> i64 {
    match o {
        Out::Err(Er::Other(1)) => 0,
        Out::Err(_) => 1,
        Out::None => 2,
        Out::Some(_, Val::B(true)) => 4,
        Out::Some(..) => 3,
    }
}

pub fn execute(plan: &Plan, ctx: &mut Ctx) {
    let specs = parse_nodes(plan);
    let mut rig = Rig {
        lf: (0..NF).map(|_| SensorHandle::new()).collect(),
        lb: (0..NB).map(|_| SensorHandle::new()).collect(),
        lq: (0..NQ).map(|_| SensorHandle::new()).collect(),
        ck: (0..NC).map(|_| ClockHandle::new(0)).collect(),
        nf: vec![None; specs.len()],
        nb: vec![None; specs.len()],
        nq: vec![None; specs.len()],
        cf: Vec::new(),
        cb: Vec::new(),
        cq: Vec::new(),
        cc: Vec::new(),
    };
    let clockref = plan.get("clockref");
    if clockref != 0 {
        rig.cc = rig.ck.iter().map(|h| shared_clock(clockref, h.clock())).collect();
        ctx.count("reach.shared_clock_references");
    }
    let leafref = plan.get("leafref");
    if leafref != 0 {
        rig.cf = rig.lf.iter().map(|h| shared_leaf(leafref, h.sensor())).collect();
        rig.cb = rig.lb.iter().map(|h| shared_leaf(leafref, h.sensor())).collect();
        rig.cq = rig.lq.iter().map(|h| shared_leaf(leafref, h.sensor())).collect();
        ctx.count("reach.shared_leaf_references");
    }
    let mut alive = vec![false; specs.len()];
    for (i, s) in specs.iter().enumerate() {
        let ok = guarded(|| build_node(&mut rig, i, s, plan));
        match ok {
            Ok(b) => alive[i] = b,
            Err(p) => {
                ctx.violate(&plan.prop, "panic", "constructor", format!("node {} ({}): constructor panicked: {:?}", i, s.kind, p.msg));
                return;
            }
        }
    }
    let mut script = Script {
        f: vec![Out::None; NF],
        b: vec![Out::None; NB],
        q: vec![Out::None; NQ],
        ck: vec![Ok(0); NC],
    };
    let qunit = (plan.get("qm") as i8, plan.get("qs") as i8);
    // stateful nodes of the mixed graph: model, expected cached output, input seen at the last update
    let mut smodels: Vec<Option<SModel>> = specs
        .iter()
        .enumerate()
        .map(|(i, s)| {
            let key = |k: &str| plan.getf(&format!("n{}.{}", i, k));
            match s.kind.as_str() {
                "pid.f" => Some(SModel::Pid(PidModel::with(key("kp"), key("ki"), key("kd"), key("sp")))),
                "ewma.f" => Some(SModel::Ewma(EwmaModel::with(key("s"), false))),
                "ewma.q" => Some(SModel::Ewma(EwmaModel::with(key("s"), true))),
                "integral.q" => Some(SModel::IntDer(IntDerModel::new(true))),
                "derivative.q" => Some(SModel::IntDer(IntDerModel::new(false))),
                "q2f.f" => Some(SModel::Conv),
                "freeze.f" => Some(SModel::Freeze(FreezeModel::new())),
                _ => None,
            }
        })
        .collect();
    let mut sexp: Vec<Exp> = vec![Exp::None; specs.len()];
    let mut slast_in: Vec<Option<Out>> = vec![None; specs.len()];
    let mut prev_outs: Vec<Out> = vec![Out::None; specs.len()];
    let mut tmin: Option<i64> = None;
    let mut tmax_seen: Option<i64> = None;
    for (oi, op) in plan.ops.iter().enumerate() {
        ctx.cur_op = oi;
        let i = op.arg(0) as usize;
        let mut twice = false;
        match op.code.as_str() {
            "LF" if i < NF => {
                script.f[i] = Out::Some(op.arg(1), Val::F(op.arg(2) as u32));
                rig.lf[i].set(Ok(Some(Datum::new(Time(op.arg(1)), op.f(2)))));
            }
            "LB" if i < NB => {
                script.b[i] = Out::Some(op.arg(1), Val::B(op.arg(2) != 0));
                rig.lb[i].set(Ok(Some(Datum::new(Time(op.arg(1)), op.arg(2) != 0))));
            }
            "LQ" if i < NQ => {
                // leaf i carries unit (qm, qs) except leaf 2 which is dimensionless (for products)
                let u = if op.a.len() >= 5 {
                    (op.arg(3) as i8, op.arg(4) as i8) // explicit (possibly ill-dimensioned) unit
                } else if i == 2 {
                    (0, 0)
                } else {
                    qunit
                };
                let su = if cfg!(feature = "v_nodim") { (0, 0) } else { u };
                script.q[i] = Out::Some(op.arg(1), Val::Q(op.arg(2) as u32, su.0, su.1));
                rig.lq[i].set(Ok(Some(Datum::new(Time(op.arg(1)), Quantity::new(op.f(2), Unit::new(u.0, u.1))))));
            }
            "LFN" if i < NF => {
                script.f[i] = Out::None;
                rig.lf[i].set(Ok(None));
                ctx.count("fault.absent");
            }
            "LBN" if i < NB => {
                script.b[i] = Out::None;
                rig.lb[i].set(Ok(None));
                ctx.count("fault.absent");
            }
            "LQN" if i < NQ => {
                script.q[i] = Out::None;
                rig.lq[i].set(Ok(None));
                ctx.count("fault.absent");
            }
            "LFE" if i < NF => {
                let e = er_of(op.arg(1) as u8);
                script.f[i] = Out::Err(e);
                rig.lf[i].set(Err(e.to_rrtk()));
                ctx.count(match op.arg(1) { 1 => "fault.err1", 3 => "fault.err_from_none", _ => "fault.err2" });
            }
            "LBE" if i < NB => {
                let e = er_of(op.arg(1) as u8);
                script.b[i] = Out::Err(e);
                rig.lb[i].set(Err(e.to_rrtk()));
                ctx.count(match op.arg(1) { 1 => "fault.err1", 3 => "fault.err_from_none", _ => "fault.err2" });
            }
            "LQE" if i < NQ => {
                let e = er_of(op.arg(1) as u8);
                script.q[i] = Out::Err(e);
                rig.lq[i].set(Err(e.to_rrtk()));
                ctx.count(match op.arg(1) { 1 => "fault.err1", 3 => "fault.err_from_none", _ => "fault.err2" });
            }
            "CK" if i < NC => {
                script.ck[i] = Ok(op.arg(1));
                rig.ck[i].set(Ok(Time(op.arg(1))));
                ctx.count("fault.clock_move");
            }
            "CKE" if i < NC => {
                let e = er_of(op.arg(1) as u8);
                script.ck[i] = Err(e);
                rig.ck[i].set(Err(e.to_rrtk()));
                ctx.count("fault.clock_err");
            }
            "RR" => {
                twice = true;
                ctx.count("fault.extra_get");
            }
            "UN" if i < specs.len() && alive[i] && smodels[i].is_some() => {
                // the scheduler updates one stateful node; its inputs deliver what they deliver *now*
                let spec = &specs[i];
                let inp = |k: usize| -> Out {
                    match spec.ins.get(k) {
                        Some(n) => match n.strip_prefix('n') {
                            Some(rest) => prev_outs.get(rest.parse::<usize>().unwrap_or(usize::MAX)).copied().unwrap_or(Out::None),
                            None => leaf_out(&script, n).unwrap_or(Out::None),
                        },
                        None => Out::None,
                    }
                };
                let r = guarded(|| match out_ty(&spec.kind) {
                    Ty::Q => norm_unit(&rig.nq[i].as_ref().unwrap().borrow_mut().update()),
                    _ => norm_unit(&rig.nf[i].as_ref().unwrap().borrow_mut().update()),
                });
                if let Err(p) = r {
                    ctx.violate(home_of(&spec.kind), "panic", &spec.kind, format!("op {}: update() of node {} ({}) panicked: {:?} at {}", oi, i, spec.kind, p.msg, p.short_loc()));
                    return;
                }
                let in0 = inp(0);
                let prev_impl = prev_outs[i].f32();
                let step = match smodels[i].as_mut().unwrap() {
                    SModel::Pid(m) => m.update(&in0),
                    SModel::Ewma(m) => m.update(&in0, prev_impl),
                    SModel::IntDer(m) => m.update(&in0, prev_impl),
                    SModel::Conv => crate::node_models::Step { out: convert_model("q2f", plan, &in0), ret: None, reset: true, class: 0 },
                    SModel::Freeze(m) => {
                        let input = inp(1);
                        let st = m.update(&in0, &input);
                        slast_in[i] = Some(input);
                        st
                    }
                };
                if !matches!(smodels[i], Some(SModel::Freeze(_))) {
                    slast_in[i] = Some(in0);
                }
                if let (Some(want), Ok(got)) = (step.ret, &r) {
                    if *got != want {
                        ctx.violate(home_of(&spec.kind), "update_return", &spec.kind, format!("op {}: update() of node {} returned {:?}, expected {:?}", oi, i, got, want));
                    }
                }
                sexp[i] = step.out;
                ctx.count("n.stateful_update_in_graph");
                if !in0.is_some() {
                    ctx.count("reach.graph_fault_reaches_stateful_node");
                }
                if step.reset {
                    ctx.nontrivial = true;
                }
            }
            _ => {}
        }
        if matches!(op.code.as_str(), "LF" | "LB" | "LQ") {
            let t = op.arg(1);
            tmin = Some(tmin.map_or(t, |m: i64| m.min(t)));
            tmax_seen = Some(tmax_seen.map_or(t, |m: i64| m.max(t)));
        }
        // read every node, in order; judge each against its own inputs' outcomes
        let mut outs: Vec<Out> = Vec::with_capacity(specs.len());
        for (ni, spec) in specs.iter().enumerate() {
            if !alive[ni] {
                outs.push(Out::None);
                continue;
            }
            let got = guarded(|| match out_ty(&spec.kind) {
                Ty::F => norm(&rig.nf[ni].as_ref().unwrap().borrow().get()),
                Ty::B => norm(&rig.nb[ni].as_ref().unwrap().borrow().get()),
                Ty::Q => norm(&rig.nq[ni].as_ref().unwrap().borrow().get()),
            });
            let got = match got {
                Ok(g) => g,
                Err(p) => {
                    ctx.violate(&plan.prop, "panic", base(&spec.kind), format!("op {}: get() of node {} ({}) panicked: {:?} at {}", oi, ni, spec.kind, p.msg, p.short_loc()));
                    return;
                }
            };
            if twice {
                // the second read happens while the caller itself is looking at the node's leaves and clocks
                // (a shared borrow of every shared leaf / clock Reference that can tell shared from exclusive
                // is alive): reading is a shared use of the inputs, so it must work and return the same
                let holdable = |m: i64| m == 1 || m == 3;
                let hold_f: Vec<_> = if holdable(leafref) { rig.cf.iter().map(|r| r.borrow()).collect() } else { Vec::new() };
                let hold_b: Vec<_> = if holdable(leafref) { rig.cb.iter().map(|r| r.borrow()).collect() } else { Vec::new() };
                let hold_q: Vec<_> = if holdable(leafref) { rig.cq.iter().map(|r| r.borrow()).collect() } else { Vec::new() };
                let hold_c: Vec<_> = if holdable(clockref) { rig.cc.iter().map(|r| r.borrow()).collect() } else { Vec::new() };
                if !hold_f.is_empty() || !hold_c.is_empty() {
                    ctx.count("reach.read_while_inputs_borrowed");
                }
                let again = guarded(|| match out_ty(&spec.kind) {
                    Ty::F => norm(&rig.nf[ni].as_ref().unwrap().borrow().get()),
                    Ty::B => norm(&rig.nb[ni].as_ref().unwrap().borrow().get()),
                    Ty::Q => norm(&rig.nq[ni].as_ref().unwrap().borrow().get()),
                });
                drop((hold_f, hold_b, hold_q, hold_c));
                let again = match again {
                    Ok(a) => a,
                    Err(p) => {
                        ctx.violate(&plan.prop, "panic_while_inputs_borrowed", base(&spec.kind), format!("op {}: get() of node {} ({}) while shared borrows of its leaves and clocks are alive panicked: {:?} at {}", oi, ni, spec.kind, p.msg, p.short_loc()));
                        return;
                    }
                };
                if again != got {
                    ctx.violate("C02", "read_stability", base(&spec.kind), format!("op {}: node {} ({}) returned {} and then {}", oi, ni, spec.kind, got.show(), again.show()));
                }
            }
            if smodels[ni].is_some() {
                let kind = spec.kind.as_str();
                let cmp = check_exp(&sexp[ni], &got, home_of(kind) != "C12");
                ctx.count_n("n.value_compared", cmp.compared as u64);
                ctx.count_n("n.ill_conditioned_skipped", cmp.skipped as u64);
                if let Some((what, detail)) = cmp.bad {
                    ctx.violate(home_of(kind), &format!("model_{}", what), kind, format!("op {}: node {} ({}) in a graph: {}", oi, ni, kind, detail));
                }
                let updated_now = op.code == "UN" && i == ni;
                if !updated_now && got != prev_outs[ni] && oi > 0 {
                    ctx.violate("C05", "get_purity", kind, format!("op {} ({}): node {} ({}) changed from {} to {} without being updated", oi, op.code, ni, kind, prev_outs[ni].show(), got.show()));
                }
                if kind != "freeze.f" {
                    if let Out::Err(e) = got {
                        if slast_in[ni] != Some(Out::Err(e)) {
                            ctx.violate("C05", "stale_error", kind, format!("op {}: node {} ({}) returns {} but its input at the most recent update returned {}", oi, ni, kind, got.show(), slast_in[ni].map(|o| o.show()).unwrap_or("nothing".into())));
                        }
                    }
                }
                ctx.sig((ni as u64) << 32 | 0x5000 | got.cat() as u64);
                outs.push(got);
                continue;
            }
            let ins: Vec<Out> = spec
                .ins
                .iter()
                .map(|n| {
                    if let Some(rest) = n.strip_prefix('n') {
                        outs.get(rest.parse::<usize>().unwrap_or(usize::MAX)).copied().unwrap_or(Out::None)
                    } else {
                        leaf_out(&script, n).unwrap_or(Out::None)
                    }
                })
                .collect();
            let clock: Result<i64, Er> = if spec.clock >= 100 {
                match script.f[(spec.clock - 100) % NF] {
                    Out::Some(t, _) => Ok(t),
                    Out::None => Err(Er::FromNone),
                    Out::Err(e) => Err(e),
                }
            } else {
                script.ck[spec.clock % NC]
            };
            // coverage cell: kind, arity, category tuple, timestamp order class of first two
            let mut parts: Vec<i64> = vec![ni as i64 * 0 + spec.ins.len() as i64];
            for o in &ins {
                parts.push(cat_code(o));
            }
            let order = match (ins.first().and_then(|o| o.time()), ins.get(1).and_then(|o| o.time())) {
                (Some(a), Some(b)) => 1 + (a.cmp(&b) as i64 + 1),
                _ => 0,
            };
            parts.push(order);
            if matches!(base(&spec.kind), "expirer" | "n2v") {
                parts.push(match (&clock, ins.first().and_then(|o| o.time())) {
                    (Err(_), _) => 9,
                    (Ok(now), Some(t)) => 1 + ((*now as i128 - t as i128).cmp(&(spec.param as i128)) as i64 + 1),
                    _ => 0,
                });
            }
            ctx.cell(&spec.kind, &parts);
            {
                // category-tuple coverage (the C02 quantifier): kind x arity x outcome category per input
                let cats: Vec<i64> = ins.iter().map(cat_code).collect();
                ctx.cell(&format!("C02.cat:{}:{}", spec.kind, ins.len()), &cats);
            }
            ctx.sig((ni as u64) << 32 | (parts.iter().fold(0u64, |h, p| h.wrapping_mul(7).wrapping_add(*p as u64)) & 0xffff_ffff));
            if ins.iter().any(|o| !o.is_some()) {
                ctx.nontrivial = true;
            }
            let e1 = ins.iter().filter(|o| matches!(o, Out::Err(Er::Other(1)))).count();
            let e2 = ins.iter().filter(|o| matches!(o, Out::Err(Er::Other(2)))).count();
            if e1 > 0 && e2 > 0 {
                ctx.count("reach.two_different_errors");
            }
            if matches!(base(&spec.kind), "sum" | "prod") && spec.ins.iter().all(|n| n.starts_with('f')) {
                let pat: i64 = ins.iter().enumerate().map(|(j, o)| if o.is_some() { 1 << j } else { 0 }).sum();
                ctx.cell("C16.nary", &[(base(&spec.kind) == "sum") as i64, ins.len() as i64, pat]);
                ctx.count("reach.nary_pattern_evaluated");
            }
            if matches!(base(&spec.kind), "sum" | "prod") && ins.len() >= 3 && ins[0] == Out::None && ins.iter().any(|o| o.is_some()) {
                ctx.count("reach.nary_leading_absent");
            }
            let exp = model(spec, &ins, &clock);
            let bad = match &exp {
                Expect::Exactly(e) => {
                    if *e != got {
                        // distinguish timestamp-only mismatches (C03) from the rest (C02)
                        let time_only = matches!((e, &got), (Out::Some(_, a), Out::Some(_, b)) if a == b);
                        Some((time_only, e.show()))
                    } else {
                        None
                    }
                }
                Expect::OneOf(c) => {
                    if c.contains(&got) {
                        None
                    } else {
                        let cand = ins.iter().any(|o| match (o, &got) {
                            (Out::Some(_, a), Out::Some(_, b)) => a == b,
                            _ => false,
                        });
                        Some((cand && got.is_some(), format!("one of {}", c.iter().map(|o| o.show()).collect::<Vec<_>>().join(" / "))))
                    }
                }
                Expect::SomeAt(t) => match got {
                    Out::Some(gt, _) if gt == *t => None,
                    Out::Some(..) => Some((true, format!("a value stamped {}", t))),
                    _ => Some((false, format!("a value stamped {}", t))),
                },
            };
            if let Some((time_only, want)) = bad {
                let detail = format!(
                    "op {}: node {} ({}) with inputs [{}]{} returned {}, expected {}",
                    oi,
                    ni,
                    spec.kind,
                    ins.iter().map(|o| o.show()).collect::<Vec<_>>().join(", "),
                    if matches!(base(&spec.kind), "expirer" | "n2v") { format!(" clock {:?} limit/param {}", clock, spec.param) } else { String::new() },
                    got.show(),
                    want
                );
                if time_only {
                    ctx.violate("C03", "stream_timestamp", base(&spec.kind), detail.clone());
                    ctx.violate("C02", "stream_timestamp", base(&spec.kind), detail);
                } else {
                    ctx.violate("C02", "outcome", base(&spec.kind), detail.clone());
                    // a selection that had candidates must return one of them (C03), not nothing
                    if base(&spec.kind) == "latest" && got == Out::None && ins.iter().any(|o| o.is_some()) {
                        ctx.violate("C03", "selection_absent", "latest", detail.clone());
                    }
                    if plan.prop == "C16" {
                        ctx.violate("C16", "scratch_slot", base(&spec.kind), detail);
                    }
                }
            }
            outs.push(got);
        }
        // equivalences over the same inputs (history-level): pairs declared in the header
        for pair in plan.gets("equiv").split(';').filter(|s| !s.is_empty()) {
            if let Some((a, b)) = pair.split_once('=') {
                if let (Ok(a), Ok(b)) = (a.parse::<usize>(), b.parse::<usize>()) {
                    if a < outs.len() && b < outs.len() && alive[a] && alive[b] {
                        ctx.count("reach.equivalence_checked");
                        if outs[a] != outs[b] {
                            ctx.violate(
                                "C02",
                                "equivalence",
                                &format!("{}~{}", base(&specs[a].kind), base(&specs[b].kind)),
                                format!("op {}: node {} ({}) returned {} but node {} ({}) returned {}", oi, a, specs[a].kind, outs[a].show(), b, specs[b].kind, outs[b].show()),
                            );
                        }
                    }
                }
            }
        }
        prev_outs = outs.clone();
        if ctx.record_trace || true {
            let shown: &[i64] = if op.code == "LQ" { &op.a[..op.a.len().min(3)] } else { &op.a };
            ctx.trace(&format!("{} {} {:?} -> {}", oi, op.code, shown, outs.iter().map(|o| o.show()).collect::<Vec<_>>().join(" | ")));
        }
    }
    if let (Some(a), Some(b)) = (tmin, tmax_seen) {
        ctx.sim_ns += (b as i128 - a as i128).max(0);
    }
}

// ------------------------------------------------------------------ generator

fn pick_in(rng: &mut Rng, ty: Ty, upto: usize, specs: &[NodeSpec], leaf_bias: f64) -> String {
    // earlier node of the right type, or a leaf
    // unit-changing quantity nodes are sinks: nothing downstream may add them to something else
    let sink = |k: &str| matches!(k, "prod.q" | "prod2.q" | "quot.q" | "n2v.q" | "integral.q" | "derivative.q");
    let cands: Vec<usize> = (0..upto).filter(|&i| out_ty(&specs[i].kind) == ty && !sink(&specs[i].kind)).collect();
    if !cands.is_empty() && !rng.chance(leaf_bias) {
        return format!("n{}", rng.pick(&cands));
    }
    match ty {
        Ty::F => format!("f{}", rng.below(NF as u64)),
        Ty::B => format!("b{}", rng.below(NB as u64)),
        Ty::Q => format!("q{}", rng.below(2)),
    }
}

/// leaf-only quantity input (any of the three leaves, including the dimensionless one)
fn pick_q_leaf(rng: &mut Rng) -> String {
    format!("q{}", rng.below(NQ as u64))
}

const KINDS_F: [&str; 14] = ["sum.f", "prod.f", "latest.f", "sum2.f", "prod2.f", "diff.f", "quot.f", "exp.f", "if.f", "ifelse.f", "expirer.f", "n2e.f", "n2v.f", "sum.f"];
const KINDS_B: [&str; 7] = ["and", "or", "not", "latest.b", "n2v.b", "if.b", "expirer.b"];
const KINDS_Q: [&str; 12] = ["sum.q", "sum2.q", "diff.q", "latest.q", "if.q", "n2e.q", "expirer.q", "ifelse.q", "prod.q", "prod2.q", "quot.q", "n2v.q"];

fn random_node(rng: &mut Rng, kind: &str, idx: usize, specs: &[NodeSpec], leaf_bias: f64, max_arity: usize) -> NodeSpec {
    let ty = out_ty(kind);
    let b = base(kind);
    let mut ins = Vec::new();
    if matches!(kind, "prod.q" | "prod2.q" | "quot.q") {
        let n = if b == "prod" { rng.range(1, max_arity.min(4) as i64) } else { 2 };
        for _ in 0..n {
            ins.push(pick_q_leaf(rng));
        }
        return NodeSpec { kind: kind.to_string(), ins, clock: 0, param: 0 };
    }
    match b {
        "sum" | "prod" | "latest" => {
            let n = rng.range(1, max_arity as i64);
            for _ in 0..n {
                ins.push(pick_in(rng, ty, idx, specs, leaf_bias));
            }
        }
        "sum2" | "prod2" | "diff" | "quot" | "exp" => {
            ins.push(pick_in(rng, ty, idx, specs, leaf_bias));
            ins.push(pick_in(rng, ty, idx, specs, leaf_bias));
        }
        "if" => {
            ins.push(pick_in(rng, Ty::B, idx, specs, leaf_bias));
            ins.push(pick_in(rng, ty, idx, specs, leaf_bias));
        }
        "ifelse" => {
            ins.push(pick_in(rng, Ty::B, idx, specs, leaf_bias));
            ins.push(pick_in(rng, ty, idx, specs, leaf_bias));
            ins.push(pick_in(rng, ty, idx, specs, leaf_bias));
        }
        "and" | "or" => {
            ins.push(pick_in(rng, Ty::B, idx, specs, leaf_bias));
            ins.push(pick_in(rng, Ty::B, idx, specs, leaf_bias));
        }
        _ => ins.push(pick_in(rng, ty, idx, specs, leaf_bias)),
    }
    let param = match b {
        // (the limit is any Time: zero, and negative ones - "only data stamped ahead of the clock" - included)
        "expirer" => *rng.pick(&[0i64, 1, 1000, 1_000_000_000, 5_000_000_000, -1, -1000, -5_000_000_000]),
        "n2v" => match ty {
            Ty::B => rng.below(2) as i64,
            _ => fb(rng.moderate_f32()),
        },
        _ => 0,
    };
    // one expirer / substitute-value node in eight takes its time from a sensor's own timestamps:
    // preferably the sensor it reads
    let clock = if matches!(b, "expirer" | "n2v") && rng.chance(0.125) {
        match ins.first() {
            Some(n) if n.starts_with('f') && rng.chance(0.7) => 100 + n[1..].parse::<usize>().unwrap_or(0),
            _ => 100 + rng.below(NF as u64) as usize,
        }
    } else {
        rng.below(NC as u64) as usize
    };
    NodeSpec { kind: kind.to_string(), ins, clock, param }
}

/// Number of enumerated runs at the start of every C02 batch: for each of the three n-ary
/// kinds, every assignment of {E1, E2, absent, present} to N = 1..5 inputs.
pub const C02_ENUM: u64 = 3 * (4 + 16 + 64 + 256 + 1024);

fn gen_c02_enumerated(prop: &str, rng: &mut Rng, seed: u64, run: u64) -> Plan {
    let mut plan = Plan::new("comb", prop, seed, run);
    let per_kind = C02_ENUM / 3;
    let kind = ["sum.f", "prod.f", "latest.f"][(run / per_kind) as usize];
    let mut k = run % per_kind;
    let mut n = 1usize;
    while k >= 1u64 << (2 * n) {
        k -= 1u64 << (2 * n);
        n += 1;
    }
    let ins: Vec<String> = (0..n).map(|i| format!("f{}", i)).collect();
    plan.sets("nodes", &nodes_text(&[NodeSpec { kind: kind.into(), ins, clock: 0, param: 0 }]));
    plan.sets("equiv", "");
    let base_t = rng.range(-1_000_000_000, 1_000_000_000);
    for i in 0..n {
        match (k >> (2 * i)) & 3 {
            0 => plan.push("LFE", &[i as i64, 1]),
            1 => plan.push("LFE", &[i as i64, 2]),
            2 => plan.push("LFN", &[i as i64]),
            _ => plan.push("LF", &[i as i64, base_t + rng.range(-2, 2), fb(rng.moderate_f32())]),
        }
    }
    plan.push("RR", &[]);
    plan
}

/// Second enumerated block: every other combinator (and the bool / Quantity instances of the n-ary
/// ones up to arity 3) x every assignment of {E1, E2, absent, present} (booleans: true / false) to its
/// inputs. (kind, input types in order)
pub const ENUM2: [(&str, &str); 38] = [
    ("sum2.f", "FF"), ("prod2.f", "FF"), ("diff.f", "FF"), ("quot.f", "FF"), ("exp.f", "FF"),
    ("sum2.q", "QQ"), ("prod2.q", "QQ"), ("diff.q", "QQ"), ("quot.q", "QQ"),
    ("and", "BB"), ("or", "BB"), ("not", "B"),
    ("if.f", "BF"), ("if.b", "BB"), ("if.q", "BQ"),
    ("ifelse.f", "BFF"), ("ifelse.q", "BQQ"),
    ("n2e.f", "F"), ("n2e.q", "Q"), ("n2v.f", "F"), ("n2v.b", "B"), ("n2v.q", "Q"),
    ("expirer.f", "F"), ("expirer.b", "B"), ("expirer.q", "Q"),
    ("latest.b", "B"), ("latest.b", "BB"), ("latest.b", "BBB"),
    ("latest.q", "Q"), ("latest.q", "QQ"), ("latest.q", "QQQ"),
    ("sum.q", "Q"), ("sum.q", "QQ"), ("sum.q", "QQQ"),
    ("prod.q", "Q"), ("prod.q", "QQ"), ("prod.q", "QQQ"),
    ("latest.f", "FFFFF"),
];
fn enum2_size(types: &str) -> u64 {
    types.bytes().map(|t| if t == b'B' { 5u64 } else { 4 }).product()
}
pub fn enum2_total() -> u64 {
    ENUM2.iter().map(|(_, t)| enum2_size(t)).sum()
}
fn gen_c02_enum2(prop: &str, rng: &mut Rng, seed: u64, run: u64, mut k: u64) -> Plan {
    let mut plan = Plan::new("comb", prop, seed, run);
    let mut which = 0;
    while k >= enum2_size(ENUM2[which].1) {
        k -= enum2_size(ENUM2[which].1);
        which += 1;
    }
    let (kind, types) = ENUM2[which];
    let (mut nf, mut nb, mut nq) = (0, 0, 0);
    let mut ins = Vec::new();
    for t in types.bytes() {
        match t {
            b'F' => {
                ins.push(format!("f{}", nf));
                nf += 1;
            }
            b'B' => {
                ins.push(format!("b{}", nb));
                nb += 1;
            }
            _ => {
                ins.push(format!("q{}", nq));
                nq += 1;
            }
        }
    }
    let param = match base(kind) {
        "expirer" => 1000,
        "n2v" if kind.ends_with(".b") => 1,
        "n2v" => fb(2.5),
        _ => 0,
    };
    plan.sets("nodes", &nodes_text(&[NodeSpec { kind: kind.into(), ins: ins.clone(), clock: 0, param }]));
    plan.sets("equiv", "");
    // (quantity leaf 2 is dimensionless by construction: sums / selections over all three need unit 1)
    let unitless = nq == 3 && base(kind) != "prod";
    plan.set("qm", if unitless { 0 } else { rng.range(-2, 2) });
    plan.set("qs", if unitless { 0 } else { rng.range(-2, 2) });
    let base_t = rng.range(-1_000_000_000, 1_000_000_000);
    plan.push("CK", &[0, base_t + rng.range(-5, 5)]);
    for name in ins.iter() {
        let ty = name.as_bytes()[0];
        let i: i64 = name[1..].parse().unwrap();
        let radix = if ty == b'b' { 5 } else { 4 };
        let c = k % radix;
        k /= radix;
        let t = base_t + rng.range(-2, 2);
        let (present, absent, err) = match ty {
            b'f' => ("LF", "LFN", "LFE"),
            b'b' => ("LB", "LBN", "LBE"),
            _ => ("LQ", "LQN", "LQE"),
        };
        match c {
            0 => plan.push(err, &[i, 1]),
            1 => plan.push(err, &[i, 2]),
            2 => plan.push(absent, &[i]),
            _ if ty == b'b' => plan.push(present, &[i, t, (c == 4) as i64]),
            _ => plan.push(present, &[i, t, fb(rng.moderate_f32())]),
        }
    }
    plan.push("RR", &[]);
    plan
}

/// Third enumerated block: the SAME lock-backed Reference as both value inputs of every two-input
/// combinator (and as all inputs of the n-ary ones), present / absent / erroring. (kind, inputs)
pub const ENUM3: [(&str, &str); 16] = [
    ("sum2.f", "f0,f0"), ("prod2.f", "f0,f0"), ("diff.f", "f0,f0"), ("quot.f", "f0,f0"), ("exp.f", "f0,f0"),
    ("sum2.q", "q0,q0"), ("prod2.q", "q2,q2"), ("diff.q", "q0,q0"), ("quot.q", "q0,q0"),
    ("sum.f", "f0,f0,f0"), ("prod.f", "f0,f0"), ("latest.f", "f0,f0,f0"), ("latest.q", "q0,q0"), ("sum.q", "q0,q0"),
    ("ifelse.f", "b0,f0,f0"), ("ifelse.q", "b0,q0,q0"),
];
pub fn enum3_total() -> u64 {
    ENUM3.len() as u64 * 3 * 2
}
fn gen_c02_enum3(prop: &str, rng: &mut Rng, seed: u64, run: u64, k: u64) -> Plan {
    let mut plan = Plan::new("comb", prop, seed, run);
    let (kind, ins) = ENUM3[(k / 6) as usize];
    let cat = k % 3;
    plan.set("leafref", 2 + (k / 3 % 2) as i64);
    let ins: Vec<String> = ins.split(',').map(|x| x.to_string()).collect();
    plan.sets("nodes", &nodes_text(&[NodeSpec { kind: kind.into(), ins, clock: 0, param: 0 }]));
    plan.sets("equiv", "");
    plan.set("qm", rng.range(-2, 2));
    plan.set("qs", rng.range(-2, 2));
    let t = rng.range(-1_000_000_000, 1_000_000_000);
    plan.push("LB", &[0, t, rng.below(2) as i64]);
    for (p, a, e, idx) in [("LF", "LFN", "LFE", 0i64), ("LQ", "LQN", "LQE", 0), ("LQ", "LQN", "LQE", 2)] {
        match cat {
            0 => plan.push(p, &[idx, t + 1, fb(rng.moderate_f32())]),
            1 => plan.push(a, &[idx]),
            _ => plan.push(e, &[idx, rng.range(1, 3)]),
        }
    }
    plan.push("RR", &[]);
    plan
}

/// fourth enumerated block: the binary f32 combinators over a grid of landmark values (unordered, infinite,
/// extreme, subnormal, zeros of both signs, and the exponents / factors for which an implementation is
/// tempted to take a short cut: 0.5, 1, 2, 3, -1): one row of the grid per plan
const ENUM4_KINDS: [&str; 5] = ["exp.f", "quot.f", "diff.f", "sum2.f", "prod2.f"];
const VGRID: [f32; 16] = [
    f32::NAN, f32::NEG_INFINITY, -f32::MAX, -2.0, -1.0, -0.5, -1e-42, -0.0, 0.0, 1e-42, 0.5, 1.0, 2.0, 3.0, f32::MAX, f32::INFINITY,
];
pub fn enum4_total() -> u64 {
    (ENUM4_KINDS.len() * VGRID.len()) as u64
}
fn gen_c02_enum4(prop: &str, rng: &mut Rng, seed: u64, run: u64, k: u64) -> Plan {
    let mut plan = Plan::new("comb", prop, seed, run);
    let kind = ENUM4_KINDS[(k / VGRID.len() as u64) as usize];
    let a = VGRID[(k % VGRID.len() as u64) as usize];
    plan.sets("nodes", &nodes_text(&[NodeSpec { kind: kind.into(), ins: vec!["f0".into(), "f1".into()], clock: 0, param: 0 }]));
    plan.sets("equiv", "");
    let t = rng.range(-1_000_000_000, 1_000_000_000);
    plan.push("LF", &[0, t, fb(a)]);
    for (j, b) in VGRID.iter().enumerate() {
        plan.push("LF", &[1, t + j as i64, fb(*b)]);
    }
    plan
}

/// leaf values of the random stateless plans: the moderate pool, and now and then an f32 that is special
/// (signed zero, infinities, NaN, the largest and smallest normal, a subnormal) - "values random"
fn leaf_value(rng: &mut Rng) -> f32 {
    if rng.chance(0.04) {
        *rng.pick(&[-0.0f32, f32::INFINITY, f32::NEG_INFINITY, f32::NAN, f32::MAX, -f32::MAX, f32::MIN_POSITIVE, 1e-42])
    } else if rng.chance(0.04) {
        *rng.pick(&[0.5f32, 1.0, 2.0, 3.0, -1.0, -0.5, 0.0, 0.25])
    } else {
        rng.moderate_f32()
    }
}

pub fn gen_c02(prop: &str, tier: Tier, rng: &mut Rng, seed: u64, run: u64) -> Plan {
    if run < C02_ENUM && prop == "C02" {
        return gen_c02_enumerated(prop, rng, seed, run);
    }
    if run < C02_ENUM + enum2_total() && prop == "C02" {
        return gen_c02_enum2(prop, rng, seed, run, run - C02_ENUM);
    }
    if run < C02_ENUM + enum2_total() + enum3_total() && prop == "C02" {
        return gen_c02_enum3(prop, rng, seed, run, run - C02_ENUM - enum2_total());
    }
    if run < C02_ENUM + enum2_total() + enum3_total() + enum4_total() && prop == "C02" {
        return gen_c02_enum4(prop, rng, seed, run, run - C02_ENUM - enum2_total() - enum3_total());
    }
    let mut plan = Plan::new("comb", prop, seed, run);
    let mut specs: Vec<NodeSpec> = Vec::new();
    let mut equiv: Vec<String> = Vec::new();
    let nn = rng.range(1, 6) as usize;
    let leaf_bias = *rng.pick(&[1.0, 0.7, 0.4]);
    // the kind under test cycles deterministically so that all 16 (x types) appear
    let all: Vec<&str> = KINDS_F.iter().chain(KINDS_B.iter()).chain(KINDS_Q.iter()).copied().collect();
    for j in 0..nn {
        let kind = if j == nn - 1 { all[(run % all.len() as u64) as usize] } else { *rng.pick(&all) };
        // (the statements put no ceiling on the arity: a tenth of the plans go beyond eight inputs)
        let max_arity = if rng.chance(0.1) { 12 } else if rng.chance(0.3) { 8 } else { 5 };
        let n = random_node(rng, kind, specs.len(), &specs, leaf_bias, max_arity);
        specs.push(n);
    }
    // equivalence twins: Sum2 ~ SumStream[2], Product2 ~ ProductStream[2], De Morgan
    match rng.below(4) {
        0 => {
            let a = pick_in(rng, Ty::F, specs.len(), &specs, leaf_bias);
            let b = pick_in(rng, Ty::F, specs.len(), &specs, leaf_bias);
            let which = if rng.chance(0.5) { ("sum2.f", "sum.f") } else { ("prod2.f", "prod.f") };
            let i = specs.len();
            specs.push(NodeSpec { kind: which.0.into(), ins: vec![a.clone(), b.clone()], clock: 0, param: 0 });
            specs.push(NodeSpec { kind: which.1.into(), ins: vec![a, b], clock: 0, param: 0 });
            equiv.push(format!("{}={}", i, i + 1));
        }
        1 => {
            let a = pick_in(rng, Ty::B, specs.len(), &specs, leaf_bias);
            let b = pick_in(rng, Ty::B, specs.len(), &specs, leaf_bias);
            let (inner, outer) = if rng.chance(0.5) { ("and", "or") } else { ("or", "and") };
            let i = specs.len();
            specs.push(NodeSpec { kind: inner.into(), ins: vec![a.clone(), b.clone()], clock: 0, param: 0 });
            specs.push(NodeSpec { kind: "not".into(), ins: vec![format!("n{}", i)], clock: 0, param: 0 });
            specs.push(NodeSpec { kind: "not".into(), ins: vec![a], clock: 0, param: 0 });
            specs.push(NodeSpec { kind: "not".into(), ins: vec![b], clock: 0, param: 0 });
            specs.push(NodeSpec { kind: outer.into(), ins: vec![format!("n{}", i + 2), format!("n{}", i + 3)], clock: 0, param: 0 });
            equiv.push(format!("{}={}", i + 1, i + 4));
        }
        _ => {}
    }
    // "never expires": a quarter of the runs that contain an expirer give it a huge limit. Every
    // stamp and clock reading of such a run is non-negative, so that `now - stamp` is representable
    // (the crate computes the age as that difference) while `stamp + limit` is not.
    let has_expirer = specs.iter().any(|s| matches!(base(&s.kind), "expirer"));
    let huge_limit = has_expirer && rng.chance(0.25);
    if huge_limit {
        for s in specs.iter_mut().filter(|s| base(&s.kind) == "expirer") {
            s.param = *rng.pick(&[i64::MAX, i64::MAX - 1, i64::MAX / 2 + 10, 1i64 << 62]);
        }
    }
    plan.sets("nodes", &nodes_text(&specs));
    plan.sets("equiv", &equiv.join(";"));
    plan.set("qm", rng.range(-2, 2));
    plan.set("qs", rng.range(-2, 2));
    // how the nodes reach the leaves: a handle of their own each (0), or one shared Reference per leaf
    // behind an Rc (1), a Mutex (2) or an RwLock (3)
    plan.set("leafref", *rng.pick(&[0, 0, 0, 0, 0, 1, 2, 2, 3, 3]));
    plan.set("clockref", *rng.pick(&[0, 0, 1, 1, 3]));
    let steps = rng.range(1, if tier == Tier::Quick { 12 } else { 30 });
    let rate = *rng.pick(&[0.0, 0.1, 0.3, 0.5]);
    let extreme = rng.chance(0.15) && !has_expirer;
    let base_t: i64 = if huge_limit {
        *rng.pick(&[1, 1_000_000_000_000, i64::MAX / 2 + 10, 1i64 << 62, i64::MAX - 6_000_000_000])
    } else if extreme {
        *rng.pick(&[i64::MAX - 1000, i64::MIN + 1000, i64::MAX, i64::MIN, i64::MIN])
    } else {
        rng.range(-1_000_000_000_000, 1_000_000_000_000)
    };
    let mut recent: Vec<i64> = vec![base_t];
    for _ in 0..steps {
        let nleaf = rng.range(1, 4);
        for _ in 0..nleaf {
            // timestamp: older / equal / newer than something already delivered
            let r = *rng.pick(&recent);
            let t = match rng.below(5) {
                0 => r,
                1 => r.saturating_add(1),
                2 => r.saturating_sub(1),
                3 => r.saturating_add(rng.range(-500, 500)),
                _ => r.saturating_add(rng.range(-5_000_000_000, 5_000_000_000) * if extreme { 0 } else { 1 }),
            };
            let t = if huge_limit { t.max(0) } else { t };
            recent.push(t);
            if recent.len() > 6 {
                recent.remove(0);
            }
            let which = rng.below(10);
            let faulty = rng.chance(rate);
            match which {
                0..=4 => {
                    let i = rng.below(NF as u64) as i64;
                    if faulty {
                        if rng.chance(0.5) { plan.push("LFN", &[i]) } else { plan.push("LFE", &[i, rng.range(1, 3)]) }
                    } else {
                        plan.push("LF", &[i, t, fb(leaf_value(rng))]);
                    }
                }
                5..=7 => {
                    let i = rng.below(NB as u64) as i64;
                    if faulty {
                        if rng.chance(0.5) { plan.push("LBN", &[i]) } else { plan.push("LBE", &[i, rng.range(1, 3)]) }
                    } else {
                        plan.push("LB", &[i, t, rng.below(2) as i64]);
                    }
                }
                _ => {
                    let i = rng.below(NQ as u64) as i64;
                    if faulty {
                        if rng.chance(0.5) { plan.push("LQN", &[i]) } else { plan.push("LQE", &[i, rng.range(1, 3)]) }
                    } else if prop == "C19ill" && rng.chance(0.5) {
                        plan.push("LQ", &[i, t, fb(rng.moderate_f32()), rng.range(-2, 2), rng.range(-2, 2)]);
                    } else {
                        plan.push("LQ", &[i, t, fb(leaf_value(rng))]);
                    }
                }
            }
        }
        // clocks: before / at / after (datum time + limit) of some expirer
        if rng.chance(0.6) {
            let c = rng.below(NC as u64) as i64;
            if rng.chance(rate * 0.5) {
                plan.push("CKE", &[c, rng.range(1, 3)]);
            } else {
                let lim = specs.iter().find(|s| base(&s.kind) == "expirer").map(|s| s.param).unwrap_or(0);
                let r = *rng.pick(&recent);
                let now = r.saturating_add(lim).saturating_add(*rng.pick(&[-1i64, 0, 1, -1000, 1000, 7]));
                let near = r.saturating_add(*rng.pick(&[-1i64, 0, 1, -1000, 1000, 5_000_000_000])).max(0);
                plan.push("CK", &[c, if extreme { r } else if huge_limit { near } else { now }]);
            }
        }
        if rng.chance(0.2) {
            plan.push("RR", &[]);
        }
    }
    plan
}

/// C16(a): one n-ary sum or product of arity N = 1..8 over distinct leaves; every step
/// re-scripts all N leaves with an absent/present pattern. Patterns are enumerated by the run
/// index so that all 2^N are reached, values are seeded.
pub fn gen_c16(prop: &str, tier: Tier, rng: &mut Rng, seed: u64, run: u64) -> Plan {
    let mut plan = Plan::new("comb", prop, seed, run);
    let n = 1 + (run % 8) as usize;
    let kind = if (run / 8) % 2 == 0 { "sum.f" } else { "prod.f" };
    let ins: Vec<String> = (0..n).map(|i| format!("f{}", i)).collect();
    plan.sets("nodes", &nodes_text(&[NodeSpec { kind: kind.into(), ins, clock: 0, param: 0 }]));
    plan.sets("equiv", "");
    let steps = if tier == Tier::Quick { 4 } else { 8 };
    let base_pat = (run / 16) * steps as u64;
    let mut t = rng.range(-1_000_000, 1_000_000);
    for s in 0..steps {
        let pat = (base_pat + s as u64) % (1u64 << n);
        for i in 0..n {
            t += rng.range(0, 3);
            if pat >> i & 1 == 1 {
                plan.push("LF", &[i as i64, t, fb(rng.range(1, 9) as f32)]);
            } else {
                plan.push("LFN", &[i as i64]);
            }
        }
        plan.push("RR", &[]);
    }
    plan
}

/// W-stream proper: a mixed graph of stateless combinators and stateful streams. The scheduler
/// re-scripts leaves, updates any stateful node at any time (in any order, repeatedly, or not at
/// all for many steps) and reads everything after every op.
pub fn gen_graph(prop: &str, tier: Tier, rng: &mut Rng, seed: u64, run: u64) -> Plan {
    let mut plan = Plan::new("comb", prop, seed, run);
    let mut specs: Vec<NodeSpec> = Vec::new();
    let stateless_f = ["sum.f", "sum2.f", "diff.f", "latest.f", "n2v.f", "if.f", "prod2.f", "n2e.f"];
    let stateless_q = ["sum.q", "latest.q", "diff.q", "n2e.q"];
    let stateful: &[&str] = match prop {
        "C04" => &["pid.f"],
        "C12" => &["ewma.f", "ewma.q"],
        "C10" => &["integral.q", "derivative.q"],
        _ => &["pid.f", "ewma.f", "ewma.q", "integral.q", "derivative.q", "q2f.f", "freeze.f"],
    };
    let nn = rng.range(2, 6) as usize;
    let leaf_bias = *rng.pick(&[0.7, 0.4, 0.2]);
    for j in 0..nn {
        let idx = specs.len();
        let want_stateful = j == nn - 1 || rng.chance(0.35);
        if want_stateful {
            let kind = *rng.pick(stateful);
            let ins = match kind {
                "q2f.f" => {
                    // any quantity node, including the unit-changing ones
                    let cands: Vec<usize> = (0..idx).filter(|&i| out_ty(&specs[i].kind) == Ty::Q).collect();
                    vec![if !cands.is_empty() && rng.chance(0.7) { format!("n{}", rng.pick(&cands)) } else { pick_q_leaf(rng) }]
                }
                "freeze.f" => vec![pick_in(rng, Ty::B, idx, &specs, leaf_bias), pick_in(rng, Ty::F, idx, &specs, leaf_bias)],
                k if k.ends_with(".q") => vec![pick_in(rng, Ty::Q, idx, &specs, leaf_bias)],
                _ => vec![pick_in(rng, Ty::F, idx, &specs, leaf_bias)],
            };
            for k in ["kp", "ki", "kd", "sp"] {
                plan.setf(&format!("n{}.{}", idx, k), if rng.chance(0.2) { 0.0 } else { rng.moderate_f32() });
            }
            plan.setf(&format!("n{}.s", idx), match rng.below(4) { 0 => 0.0, 1 => 1.0, _ => rng.unit() as f32 });
            specs.push(NodeSpec { kind: kind.into(), ins, clock: 0, param: 0 });
        } else {
            let kind = if rng.chance(0.7) { *rng.pick(&stateless_f) } else { *rng.pick(&stateless_q) };
            let n = random_node(rng, kind, idx, &specs, leaf_bias, 3);
            specs.push(n);
        }
    }
    plan.sets("nodes", &nodes_text(&specs));
    plan.sets("equiv", "");
    plan.set("qm", rng.range(-2, 2));
    plan.set("qs", rng.range(-2, 2));
    let stateful_idx: Vec<usize> = (0..specs.len()).filter(|&i| is_stateful(&specs[i].kind)).collect();
    let steps = rng.range(2, if tier == Tier::Quick { 14 } else { 32 });
    let rate = *rng.pick(&[0.0, 0.05, 0.2, 0.4]);
    let mut t = rng.range(-1_000_000_000_000, 1_000_000_000_000);
    let (lo, hi) = *rng.pick(&[(1_000i64, 1_000_000i64), (1_000_000, 1_000_000_000), (100_000_000, 100_000_000_000)]);
    for _ in 0..steps {
        for _ in 0..rng.range(1, 4) {
            t += rng.log_uniform(lo, hi);
            let faulty = rng.chance(rate);
            match rng.below(10) {
                0..=5 => {
                    let i = rng.below(NF as u64) as i64;
                    if faulty {
                        if rng.chance(0.5) { plan.push("LFN", &[i]) } else { plan.push("LFE", &[i, rng.range(1, 3)]) }
                    } else {
                        plan.push("LF", &[i, t, fb(rng.moderate_f32())]);
                    }
                }
                6 | 7 => {
                    let i = rng.below(NB as u64) as i64;
                    if faulty {
                        if rng.chance(0.5) { plan.push("LBN", &[i]) } else { plan.push("LBE", &[i, rng.range(1, 3)]) }
                    } else {
                        plan.push("LB", &[i, t, rng.below(2) as i64]);
                    }
                }
                _ => {
                    let i = rng.below(2) as i64;
                    if faulty {
                        if rng.chance(0.5) { plan.push("LQN", &[i]) } else { plan.push("LQE", &[i, rng.range(1, 3)]) }
                    } else {
                        plan.push("LQ", &[i, t, fb(rng.moderate_f32())]);
                    }
                }
            }
        }
        if rng.chance(0.3) {
            plan.push("CK", &[rng.below(NC as u64) as i64, t]);
        }
        // schedule: any subset of the stateful nodes, any order, possibly repeated
        match rng.below(5) {
            0 => {}
            1 => {
                for &i in stateful_idx.iter().rev() {
                    plan.push("UN", &[i as i64]);
                }
            }
            _ => {
                for _ in 0..rng.range(1, 2 * stateful_idx.len().max(1) as i64) {
                    plan.push("UN", &[*rng.pick(&stateful_idx) as i64]);
                }
            }
        }
        if rng.chance(0.2) {
            plan.push("RR", &[]);
        }
    }
    plan
}

/// first run index after the enumerated blocks
pub fn enum_end() -> u64 {
    C02_ENUM + enum2_total() + enum3_total() + enum4_total()
}

pub fn generate(prop: &str, tier: Tier, rng: &mut Rng, seed: u64, run: u64) -> Plan {
    if run >= enum_end() && run % 8 == 7 {
        return gen_graph(prop, tier, rng, seed, run);
    }
    gen_c02(prop, tier, rng, seed, run)
}

pub fn simplify(plan: &Plan) -> Vec<Plan> {
    let mut out = Vec::new();
    let specs = parse_nodes(plan);
    // drop the last node if nothing refers to it (keeps indices valid)
    if specs.len() > 1 {
        let last = specs.len() - 1;
        let name = format!("n{}", last);
        let referenced = specs.iter().any(|s| s.ins.contains(&name)) || plan.gets("equiv").split(';').any(|p| p.split('=').any(|x| x == last.to_string()));
        if !referenced {
            let mut p = plan.clone();
            p.sets("nodes", &nodes_text(&specs[..last]));
            out.push(p);
        }
    }
    if !plan.gets("equiv").is_empty() {
        let mut p = plan.clone();
        p.sets("equiv", "");
        out.push(p);
    }
    for (i, op) in plan.ops.iter().enumerate() {
        if matches!(op.code.as_str(), "LF" | "LQ") {
            let cur = op.f(2);
            for cand in [1.0f32, 2.0, cur.round()] {
                if cand.to_bits() != cur.to_bits() {
                    let mut p = plan.clone();
                    p.ops[i].a[2] = fb(cand);
                    out.push(p);
                }
            }
        }
    }
    out
}
