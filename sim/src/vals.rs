//! Canonical, bit-exact representation of everything an rrtk object can return, so
//! that twin-vs-twin comparisons are exact (NaN == NaN of the same bits) and traces are
//! build-independent text.

use rrtk::*;

/// Error payload used for `Error::Other`. Two distinguishable faults: E1 = 1, E2 = 2.
pub type E = u8;

#[derive(Clone, Copy, PartialEq, Eq, Debug, Hash)]
pub enum Er {
    FromNone,
    Other(u8),
}

impl Er {
    pub fn to_rrtk(self) -> Error<E> {
        match self {
            Er::FromNone => Error::FromNone,
            Er::Other(k) => Error::Other(k),
        }
    }
    pub fn from_rrtk(e: Error<E>) -> Er {
        match e {
            Error::FromNone => Er::FromNone,
            Error::Other(k) => Er::Other(k),
            _ => Er::Other(255),
        }
    }
}

/// Injected error values are plan integers: 1 and 2 are two distinguishable user errors
/// (`Error::Other`), 3 is the crate's own `Error::FromNone` (what a `NoneToError` upstream produces).
pub fn err_of(k: u8) -> Error<E> {
    if k == 3 {
        Error::FromNone
    } else {
        Error::Other(k)
    }
}
pub fn er_of(k: u8) -> Er {
    if k == 3 {
        Er::FromNone
    } else {
        Er::Other(k)
    }
}

#[derive(Clone, Copy, PartialEq, Eq, Debug, Hash)]
pub enum Val {
    F(u32),
    /// value bits, millimetre exponent, second exponent (0,0 in unchecked builds)
    Q(u32, i8, i8),
    B(bool),
    S([u32; 3]),
    /// kind 0/1/2 = position/velocity/acceleration
    C(u8, u32),
    /// TerminalData: inner time, command, state
    T(i64, Option<(u8, u32)>, Option<[u32; 3]>),
}

#[derive(Clone, Copy, PartialEq, Eq, Debug, Hash)]
pub enum Out {
    Err(Er),
    None,
    Some(i64, Val),
}

/// Canonical (build-independent, unit-free) rendering for cross-build trace comparison (C19).
pub static CANON: std::sync::atomic::AtomicBool = std::sync::atomic::AtomicBool::new(false);
fn canon() -> bool {
    CANON.load(std::sync::atomic::Ordering::Relaxed)
}

impl Out {
    pub fn cat(&self) -> u8 {
        match self {
            Out::Err(Er::FromNone) => 3,
            Out::Err(Er::Other(k)) => 4 + (*k).min(3),
            Out::None => 1,
            Out::Some(..) => 2,
        }
    }
    pub fn is_err(&self) -> bool {
        matches!(self, Out::Err(_))
    }
    pub fn is_some(&self) -> bool {
        matches!(self, Out::Some(..))
    }
    pub fn time(&self) -> Option<i64> {
        match self {
            Out::Some(t, _) => Some(*t),
            _ => None,
        }
    }
    pub fn f32(&self) -> Option<f32> {
        match self {
            Out::Some(_, Val::F(b)) => Some(f32::from_bits(*b)),
            Out::Some(_, Val::Q(b, _, _)) => Some(f32::from_bits(*b)),
            _ => None,
        }
    }
    pub fn show(&self) -> String {
        if canon() {
            return match self {
                Out::Err(Er::FromNone) => "EN".into(),
                Out::Err(Er::Other(k)) => format!("E{}", k),
                Out::None => "N".into(),
                Out::Some(t, v) => format!("S({};{})", t, show_val(v)),
            };
        }
        match self {
            Out::Err(Er::FromNone) => "Err(FromNone)".into(),
            Out::Err(Er::Other(k)) => format!("Err(E{})", k),
            Out::None => "None".into(),
            Out::Some(t, v) => format!("Some(t={},{})", t, show_val(v)),
        }
    }
}

pub fn show_val(v: &Val) -> String {
    if canon() {
        return match v {
            Val::F(b) | Val::Q(b, _, _) => format!("f:{:08x}", b),
            Val::B(b) => format!("b:{}", *b as u8),
            Val::S(s) => format!("s:{:08x},{:08x},{:08x}", s[0], s[1], s[2]),
            Val::C(k, b) => format!("c{}:{:08x}", k, b),
            Val::T(t, c, s) => format!(
                "t:{}:{}:{}",
                t,
                c.map(|(k, b)| format!("c{}:{:08x}", k, b)).unwrap_or("-".into()),
                s.map(|s| format!("s:{:08x},{:08x},{:08x}", s[0], s[1], s[2])).unwrap_or("-".into())
            ),
        };
    }
    match v {
        Val::F(b) => format!("f32:{:?}#{:08x}", f32::from_bits(*b), b),
        Val::Q(b, m, s) => format!("q:{:?}#{:08x}[mm^{} s^{}]", f32::from_bits(*b), b, m, s),
        Val::B(b) => format!("bool:{}", b),
        Val::S(s) => format!(
            "state:({:?},{:?},{:?})#{:08x},{:08x},{:08x}",
            f32::from_bits(s[0]),
            f32::from_bits(s[1]),
            f32::from_bits(s[2]),
            s[0],
            s[1],
            s[2]
        ),
        Val::C(k, b) => format!("cmd:{}:{:?}#{:08x}", k, f32::from_bits(*b), b),
        Val::T(t, c, s) => format!(
            "td:(t={},cmd={},state={})",
            t,
            match c {
                Some((k, b)) => format!("{}:{:?}#{:08x}", k, f32::from_bits(*b), b),
                None => "-".into(),
            },
            match s {
                Some(s) => format!(
                    "({:?},{:?},{:?})",
                    f32::from_bits(s[0]),
                    f32::from_bits(s[1]),
                    f32::from_bits(s[2])
                ),
                None => "-".into(),
            }
        ),
    }
}

/// Recover the exponents of a Unit through the public `==` only.
#[cfg(not(feature = "v_nodim"))]
pub fn unit_exps(u: Unit) -> (i8, i8) {
    // common ones first
    const COMMON: [(i8, i8); 8] = [
        (0, 0),
        (1, 0),
        (1, -1),
        (1, -2),
        (0, 1),
        (1, 1),
        (0, -1),
        (1, -3),
    ];
    for (m, s) in COMMON {
        if u == Unit::new(m, s) {
            return (m, s);
        }
    }
    for m in -16i8..=16 {
        for s in -16i8..=16 {
            if u == Unit::new(m, s) {
                return (m, s);
            }
        }
    }
    (127, 127)
}
#[cfg(feature = "v_nodim")]
pub fn unit_exps(_u: Unit) -> (i8, i8) {
    (0, 0)
}

pub trait ToVal {
    fn to_val(&self) -> Val;
}
/// f32 bit pattern with every NaN collapsed to one canonical pattern (which NaN an
/// operation returns is not specified by the language).
pub fn fbits(x: f32) -> u32 {
    if x.is_nan() {
        0x7fc0_0000
    } else {
        x.to_bits()
    }
}
impl ToVal for f32 {
    fn to_val(&self) -> Val {
        Val::F(fbits(*self))
    }
}
impl ToVal for bool {
    fn to_val(&self) -> Val {
        Val::B(*self)
    }
}
impl ToVal for Quantity {
    fn to_val(&self) -> Val {
        let (m, s) = unit_exps(self.unit);
        Val::Q(fbits(self.value), m, s)
    }
}
pub fn state_bits(s: &State) -> [u32; 3] {
    [fbits(s.position), fbits(s.velocity), fbits(s.acceleration)]
}
pub fn cmd_bits(c: &Command) -> (u8, u32) {
    match c {
        Command::Position(x) => (0, fbits(*x)),
        Command::Velocity(x) => (1, fbits(*x)),
        Command::Acceleration(x) => (2, fbits(*x)),
    }
}
pub fn cmd_from(kind: u8, bits: u32) -> Command {
    let x = f32::from_bits(bits);
    match kind {
        0 => Command::Position(x),
        1 => Command::Velocity(x),
        _ => Command::Acceleration(x),
    }
}
impl ToVal for State {
    fn to_val(&self) -> Val {
        Val::S(state_bits(self))
    }
}
impl ToVal for Command {
    fn to_val(&self) -> Val {
        let (k, b) = cmd_bits(self);
        Val::C(k, b)
    }
}
impl ToVal for TerminalData {
    fn to_val(&self) -> Val {
        Val::T(
            self.time.0,
            self.command.as_ref().map(cmd_bits),
            self.state.as_ref().map(state_bits),
        )
    }
}

pub fn norm<T: ToVal>(o: &Output<T, E>) -> Out {
    match o {
        Err(e) => Out::Err(Er::from_rrtk(*e)),
        Ok(None) => Out::None,
        Ok(Some(d)) => Out::Some(d.time.0, d.value.to_val()),
    }
}

pub fn norm_unit(r: &NothingOrError<E>) -> Option<Er> {
    match r {
        Ok(()) => None,
        Err(e) => Some(Er::from_rrtk(*e)),
    }
}
