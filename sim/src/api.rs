//! W-api (C19 only): straight-line programs over the value-level public API — quantities,
//! times, states, commands, motion profiles — whose canonical results are compared across
//! feature configurations. These are pure calls; they are here because C19 quantifies over
//! "programs over the whole public API" and the build configuration is the thing varied.
//! No oracle of its own: the trace is the observable.

use crate::core::{guarded, Ctx, Tier};
use crate::plan::{fb, Plan};
use crate::rng::Rng;
use crate::vals::*;
use rrtk::*;

struct KGet(f32);
impl Getter<f32, E> for KGet {
    fn get(&self) -> Output<f32, E> {
        Ok(Some(Datum::new(Time(0), self.0)))
    }
}
impl Updatable<E> for KGet {
    fn update(&mut self) -> NothingOrError<E> {
        Ok(())
    }
}

/// Grid for the power function: bases x exponents (whole exponents small and large, of both signs,
/// fractional ones, results that are subnormal, an exponent beyond i32).
pub const POW_BASES: [f32; 13] = [0.5, 0.97, 1.000001, 1.5, 2.0, 3.0, 10.0, 1e20, 1e-20, 0.25, 7.0, -2.0, -1.5];
pub const POW_EXPS: [f32; 28] = [
    0.0, 1.0, -1.0, 2.0, -2.0, 3.0, 4.0, 5.0, 8.0, 16.0, 17.0, 31.0, 33.0, 64.0, 100.0, -100.0, 1000.0, -1000.0, 0.5, -0.5, 1.5, 2.5,
    1e6, 0.333_333_34, 10.0, -10.0, 2147483648.0, 2147483649.0,
];

fn q(bits: i64, m: i64, s: i64) -> Quantity {
    Quantity::new(f32::from_bits(bits as u32), Unit::new(m as i8, s as i8))
}
fn hx(x: f32) -> String {
    format!("{:08x}", fbits(x))
}

pub fn execute(plan: &Plan, ctx: &mut Ctx) {
    let mut profile: Option<MotionProfile> = None;
    let mut state = State::new_raw(0.0, 0.0, 0.0);
    for (oi, op) in plan.ops.iter().enumerate() {
        ctx.cur_op = oi;
        let code = op.code.as_str();
        ctx.sig(code.bytes().fold(0u64, |h, b| h * 31 + b as u64));
        ctx.nontrivial = true;
        let r = guarded(|| -> String {
            match code {
                // QOP which a am as b bm bs
                "QOP" => {
                    let a = q(op.arg(1), op.arg(2), op.arg(3));
                    let b = q(op.arg(4), op.arg(5), op.arg(6));
                    match op.arg(0) {
                        0 => hx((a + b).value),
                        1 => hx((a - b).value),
                        2 => hx((a * b).value),
                        3 => hx((a / b).value),
                        4 => hx((-a).value),
                        5 => hx(a.abs().value),
                        // the sign of a zero is not a difference "as f32 values", its reciprocal is
                        12 => hx((Quantity::dimensionless(1.0) / a.abs()).value),
                        13 => hx((Quantity::dimensionless(1.0) / (-a)).value),
                        14 => hx((b / (a - a)).value),
                        6 => format!("{:?}", a.partial_cmp(&b)),
                        7 => {
                            let mut x = a;
                            x += b;
                            hx(x.value)
                        }
                        8 => {
                            let mut x = a;
                            x -= b;
                            hx(x.value)
                        }
                        9 => {
                            let mut x = a;
                            x *= b;
                            hx(x.value)
                        }
                        10 => {
                            let mut x = a;
                            x /= b;
                            hx(x.value)
                        }
                        // every comparison operator at once (==, !=, <, <=, >, >= and the two directions
                        // of partial_cmp): with an unordered operand "neither less nor greater" is not "equal"
                        15 => format!(
                            "{} {} {} {} {} {} {:?} {:?}",
                            a == b, a != b, a < b, a <= b, a > b, a >= b, a.partial_cmp(&b), b.partial_cmp(&a)
                        ),
                        _ => format!("{}", a == b),
                    }
                }
                // TOP which ns bits m s : mixed operators with Time / DimensionlessInteger
                "TOP" => {
                    let t = Time(op.arg(1));
                    let d = DimensionlessInteger(op.arg(1));
                    let x = q(op.arg(2), op.arg(3), op.arg(4));
                    match op.arg(0) {
                        0 => hx(Quantity::from(t).value),
                        1 => hx(Quantity::from(d).value),
                        2 => hx((x * t).value),
                        3 => hx((x / t).value),
                        4 => hx((t * x).value),
                        5 => hx((x * d).value),
                        6 => hx((d * x).value),
                        7 => hx((t * t).value),
                        8 => hx((t / Time(op.arg(1) | 1)).value),
                        9 => format!("{:?}", Time::try_from(Quantity::new(f32::from_bits(op.arg(2) as u32), SECOND)).map(|t| t.0)),
                        10 => format!("{:?}", DimensionlessInteger::try_from(Quantity::dimensionless(f32::from_bits(op.arg(2) as u32))).map(|t| t.0)),
                        11 => format!("{:?}", Time::try_from(x).map(|t| t.0)),
                        12 => hx((x + t).value),
                        13 => hx((t - x).value),
                        _ => hx((x + d).value),
                    }
                }
                // IOP which a b : exact integer operators on Time / DimensionlessInteger
                "IOP" => {
                    let (a, b) = (op.arg(1), op.arg(2));
                    let (ta, tb) = (Time(a), Time(b));
                    let (da, db) = (DimensionlessInteger(a), DimensionlessInteger(b));
                    let nz = DimensionlessInteger(if b == 0 { 1 } else { b });
                    let r: i64 = match op.arg(0) {
                        0 => (ta + tb).0,
                        1 => (ta - tb).0,
                        2 => (ta * db).0,
                        3 => (ta / nz).0,
                        4 => (da * tb).0,
                        5 => (da + db).0,
                        6 => (da - db).0,
                        7 => (da * db).0,
                        8 => (da / nz).0,
                        9 => (-ta).0,
                        10 => (-da).0,
                        11 => {
                            let mut x = ta;
                            x += tb;
                            x.0
                        }
                        12 => {
                            let mut x = ta;
                            x -= tb;
                            x.0
                        }
                        13 => {
                            let mut x = ta;
                            x *= db;
                            x.0
                        }
                        14 => {
                            let mut x = ta;
                            x /= nz;
                            x.0
                        }
                        15 => {
                            let mut x = da;
                            x *= db;
                            x.0
                        }
                        16 => {
                            let mut x = da;
                            x /= nz;
                            x.0
                        }
                        17 => i64::from(ta) + i64::from(DimensionlessInteger::from(b)),
                        _ => Time::from(a).0 - Time::new(b).0,
                    };
                    format!("{}", r)
                }
                // POW base exponent : the power function as the public API exposes it (ExponentStream
                // over two constant inputs); compared across float back ends to a few ulps
                "POW" => {
                    let st = streams::math::ExponentStream::<KGet, KGet, E>::new(
                        rc_ref_cell_reference(KGet(op.f(0))),
                        rc_ref_cell_reference(KGet(op.f(1))),
                    );
                    match st.get() {
                        Ok(Some(d)) => hx(d.value),
                        Ok(None) => "none".into(),
                        Err(_) => "err".into(),
                    }
                }
                // ST p v a : load a state
                "ST" => {
                    state = State::new_raw(op.f(0), op.f(1), op.f(2));
                    "ok".into()
                }
                "STUP" => {
                    state.update(Time(op.arg(0)));
                    format!("{},{},{}", hx(state.position), hx(state.velocity), hx(state.acceleration))
                }
                // STSET which bits m s
                "STSET" => {
                    let x = q(op.arg(1), op.arg(2), op.arg(3));
                    let r = match op.arg(0) {
                        0 => state.set_constant_position(x),
                        1 => state.set_constant_velocity(x),
                        _ => state.set_constant_acceleration(x),
                    };
                    format!("{:?} {},{},{}", r, hx(state.position), hx(state.velocity), hx(state.acceleration))
                }
                "STQ" => {
                    let s2 = State::new(q(op.arg(0), 1, 0), q(op.arg(1), 1, -1), q(op.arg(2), 1, -2));
                    let c = Command::from(state);
                    let (k, b) = cmd_bits(&c);
                    let sum = state + s2;
                    format!(
                        "cmd{}:{:08x} pos={:?} vel={:?} acc={} sum={},{},{} neg={} mul={} div={}",
                        k,
                        b,
                        c.get_position().map(|x| hx(x.value)),
                        c.get_velocity().map(|x| hx(x.value)),
                        hx(c.get_acceleration().value),
                        hx(sum.position),
                        hx(sum.velocity),
                        hx(sum.acceleration),
                        hx((-state).velocity),
                        hx((state * op.f(0)).acceleration),
                        hx((state / op.f(1)).position)
                    )
                }
                // MP sp sv ep ev maxv maxa
                "MP" => {
                    profile = None;
                    let p = MotionProfile::new(
                        State::new_raw(op.f(0), op.f(1), 0.0),
                        State::new_raw(op.f(2), op.f(3), 0.0),
                        Quantity::new(op.f(4), MILLIMETER_PER_SECOND),
                        Quantity::new(op.f(5), MILLIMETER_PER_SECOND_SQUARED),
                    );
                    profile = Some(p);
                    "constructed".into()
                }
                // MPQ t
                "MPQ" => match &profile {
                    None => "no-profile".into(),
                    Some(p) => {
                        let t = Time(op.arg(0));
                        let h: Option<Datum<Command>> = <MotionProfile as History<Command, E>>::get(p, t);
                        format!(
                            "piece={:?} mode={:?} acc={:?} vel={:?} pos={:?} hist={}",
                            p.get_piece(t),
                            p.get_mode(t),
                            p.get_acceleration(t).map(|x| hx(x.value)),
                            p.get_velocity(t).map(|x| hx(x.value)),
                            p.get_position(t).map(|x| hx(x.value)),
                            match h {
                                None => "-".to_string(),
                                Some(d) => {
                                    let (k, b) = cmd_bits(&d.value);
                                    format!("{}:c{}:{:08x}", d.time.0, k, b)
                                }
                            }
                        )
                    }
                },
                _ => "?".into(),
            }
        });
        match r {
            Ok(s) => ctx.trace(&format!("{} {} -> {}", oi, code, s)),
            Err(_) => {
                if code == "MP" {
                    profile = None;
                }
                ctx.trace(&format!("{} {} -> panic", oi, code))
            }
        }
    }
}

fn unit_pair(rng: &mut Rng) -> (i64, i64) {
    (rng.range(-3, 3), rng.range(-3, 3))
}
fn nz(rng: &mut Rng) -> f32 {
    let v = rng.moderate_f32();
    if v == 0.0 {
        1.5
    } else {
        v
    }
}

/// Operand grid for the exact integer operators: signs, zero, odd/even, powers of two.
const IGRID: [i64; 12] = [-1_000_001, -7, -5, -2, -1, 0, 1, 2, 3, 4, 8, 1_000_001];

/// Operand grid for the comparison operators of Quantity: unordered, infinite, zeros of both signs,
/// extreme, subnormal and ordinary values.
const CGRID: [f32; 12] = [
    f32::NAN, f32::NEG_INFINITY, -f32::MAX, -1.5, -1e-42, -0.0, 0.0, f32::MIN_POSITIVE, 1.5, 2.5, f32::MAX, f32::INFINITY,
];

pub fn generate(prop: &str, tier: Tier, rng: &mut Rng, seed: u64, run: u64) -> Plan {
    let ill = prop == "C19ill";
    let mut plan = Plan::new("api", prop, seed, run);
    // the first 40 api plans of every C19 batch enumerate operator x operand-grid exhaustively
    // (19 x 12 x 12 = 2736 evaluations, 70 per plan)
    let chunk = run / 5;
    if !ill && chunk < 40 {
        for k in chunk * 70..(chunk * 70 + 70).min(19 * 144) {
            plan.push("IOP", &[(k / 144) as i64, IGRID[(k / 12 % 12) as usize], IGRID[(k % 12) as usize]]);
        }
        if !plan.ops.is_empty() {
            return plan;
        }
    }
    // ... three enumerate the comparison operators over a 12 x 12 grid of special and ordinary values
    if !ill && (46..49).contains(&chunk) {
        let (m, s) = unit_pair(rng);
        for k in (chunk - 46) * 70..((chunk - 46) * 70 + 70).min(144) {
            plan.push("QOP", &[15, fb(CGRID[(k / 12) as usize]), m, s, fb(CGRID[(k % 12) as usize]), m, s]);
        }
        if !plan.ops.is_empty() {
            return plan;
        }
    }
    // ... and the next 6 enumerate the power-function grid (13 x 28 = 364 evaluations)
    if !ill && (40..46).contains(&chunk) {
        let total = (POW_BASES.len() * POW_EXPS.len()) as u64;
        for k in (chunk - 40) * 70..((chunk - 40) * 70 + 70).min(total) {
            plan.push("POW", &[fb(POW_BASES[(k / POW_EXPS.len() as u64) as usize]), fb(POW_EXPS[(k % POW_EXPS.len() as u64) as usize])]);
        }
        if !plan.ops.is_empty() {
            return plan;
        }
    }
    let n = rng.range(4, if tier == Tier::Quick { 16 } else { 32 });
    for _ in 0..n {
        if !ill && rng.chance(0.08) {
            // power function: whole-number exponents of any size are the interesting ones
            let b = if rng.chance(0.5) { *rng.pick(&POW_BASES) } else { rng.mag_f32(1e-3, 1e3) };
            let e = match rng.below(4) {
                0 => *rng.pick(&POW_EXPS),
                1 => rng.range(-40, 40) as f32,
                2 => rng.range(-2000, 2000) as f32,
                _ => rng.moderate_f32(),
            };
            plan.push("POW", &[fb(b), fb(e)]);
            continue;
        }
        if !ill && rng.chance(0.15) {
            // integer operators: small, negative, odd values; powers of two as divisors
            let v = |rng: &mut Rng| -> i64 {
                match rng.below(5) {
                    0 => rng.range(-9, 9),
                    1 => -(2 * rng.range(0, 1_000_000) + 1),
                    2 => 1i64 << rng.range(0, 20),
                    3 => rng.range(-2_000_000_000, 2_000_000_000),
                    _ => 2 * rng.range(0, 1_000_000) + 1,
                }
            };
            plan.push("IOP", &[rng.below(19) as i64, v(rng), v(rng)]);
            continue;
        }
        match rng.below(if ill { 5 } else { 10 }) {
            0 | 1 => {
                let which = rng.below(16) as i64;
                let (m, s) = unit_pair(rng);
                // add / sub / cmp / += / -= / == need equal units to be well-dimensioned
                let same = matches!(which, 0 | 1 | 6 | 7 | 8 | 11 | 15);
                let (m2, s2) = if same && !(ill && rng.chance(0.7)) { (m, s) } else { unit_pair(rng) };
                // operands: mostly non-zero; zeros of both signs and equal operands regularly
                let opnd = |rng: &mut Rng| -> f32 {
                    match rng.below(10) {
                        0 => 0.0,
                        1 => -0.0,
                        // values that are not ordinary numbers (unordered, infinite, extreme, subnormal)
                        2 => *rng.pick(&[f32::NAN, f32::NAN, f32::INFINITY, f32::NEG_INFINITY, f32::MAX, f32::MIN_POSITIVE, 1e-42, -f32::NAN]),
                        _ => nz(rng),
                    }
                };
                let a = opnd(rng);
                let b = if rng.chance(0.1) { a } else { opnd(rng) };
                plan.push("QOP", &[which, fb(a), m, s, fb(b), m2, s2]);
            }
            2 => {
                let which = rng.below(15) as i64;
                let ns = rng.range(-4_000_000_000_000, 4_000_000_000_000);
                let (m, s) = match which {
                    // x + t, t - x need seconds; x + d needs dimensionless; try_from(x) any unit (fails when not seconds) -> keep seconds
                    11 | 12 | 13 => {
                        if ill && rng.chance(0.7) { unit_pair(rng) } else { (0, 1) }
                    }
                    14 => {
                        if ill && rng.chance(0.7) { unit_pair(rng) } else { (0, 0) }
                    }
                    _ => unit_pair(rng),
                };
                // seconds-to-Time conversions: also durations of a few nanoseconds to a few milliseconds
                // with a fractional nanosecond count (where rounding and truncation part ways)
                let x = if matches!(which, 9 | 10 | 11) && rng.chance(0.5) {
                    let n = match rng.below(3) {
                        0 => rng.range(0, 20),
                        1 => rng.range(0, 100_000),
                        _ => rng.range(0, 8_000_000),
                    } as f32;
                    let v = (n + *rng.pick(&[0.5f32, 0.25, 0.75, 0.49, 0.51, 0.0])) * 1e-9;
                    if rng.chance(0.3) {
                        -v
                    } else {
                        v
                    }
                } else {
                    nz(rng)
                };
                plan.push("TOP", &[which, ns, fb(x), m, s]);
            }
            3 => {
                plan.push("ST", &[fb(rng.moderate_f32()), fb(rng.moderate_f32()), fb(rng.moderate_f32())]);
                let which = rng.below(3) as i64;
                let (m, s) = if ill && rng.chance(0.7) { unit_pair(rng) } else { (1, -which) };
                plan.push("STSET", &[which, fb(rng.moderate_f32()), m, s]);
            }
            4 => {
                plan.push("ST", &[fb(rng.moderate_f32()), fb(rng.moderate_f32()), fb(rng.moderate_f32())]);
                plan.push("STUP", &[rng.range(-100_000_000_000, 100_000_000_000)]);
            }
            5 => {
                plan.push("ST", &[fb(rng.moderate_f32()), fb(if rng.chance(0.3) { 0.0 } else { rng.moderate_f32() }), fb(if rng.chance(0.5) { 0.0 } else { rng.moderate_f32() })]);
                plan.push("STQ", &[fb(nz(rng)), fb(nz(rng)), fb(nz(rng))]);
            }
            _ => {
                // a move that is usually accepted: rest to rest, or small end speeds
                let sp = rng.moderate_f32();
                let dist = rng.mag_f32(1.0, 1000.0);
                let maxv = rng.mag_f32(0.1, 100.0).abs();
                let maxa = rng.mag_f32(0.1, 100.0).abs();
                let (sv, ev) = if rng.chance(0.6) { (0.0, 0.0) } else { (maxv * 0.25 * dist.signum(), maxv * 0.5 * dist.signum()) };
                plan.push("MP", &[fb(sp), fb(sv), fb(sp + dist), fb(ev), fb(if rng.chance(0.2) { -maxv } else { maxv }), fb(maxa)]);
                for _ in 0..rng.range(2, 6) {
                    let t = match rng.below(6) {
                        0 => -1,
                        1 => 0,
                        2 => rng.range(0, 1_000_000_000),
                        3 => i64::MAX,
                        _ => rng.range(0, 60_000_000_000),
                    };
                    plan.push("MPQ", &[t]);
                }
            }
        }
    }
    plan
}

/// The well-dimensioned twin of an ill-dimensioned api plan.
pub fn strip_units(plan: &mut Plan) {
    for op in plan.ops.iter_mut() {
        match op.code.as_str() {
            "QOP" if matches!(op.arg(0), 0 | 1 | 6 | 7 | 8 | 11 | 15) => {
                op.a[5] = op.a[2];
                op.a[6] = op.a[3];
            }
            "TOP" => match op.arg(0) {
                11 | 12 | 13 => {
                    op.a[3] = 0;
                    op.a[4] = 1;
                }
                14 => {
                    op.a[3] = 0;
                    op.a[4] = 0;
                }
                _ => {}
            },
            "STSET" => {
                op.a[2] = 1;
                op.a[3] = -op.a[0];
            }
            _ => {}
        }
    }
}
