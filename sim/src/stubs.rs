//! Harness-owned stubs: the seams at which the simulator injects faults. No rrtk type
//! is mocked; these are the *leaves* real rrtk objects are wired to.

use crate::vals::{err_of, E};
use rrtk::*;
use std::cell::{Cell, RefCell};
use std::rc::Rc;

/// A scripted leaf getter. The script cell is shared with the harness.
pub struct Sensor<T: Clone> {
    pub cur: Rc<RefCell<Output<T, E>>>,
    pub gets: Rc<Cell<u64>>,
    pub updates: Rc<Cell<u64>>,
    pub flap: Rc<Cell<Option<u8>>>,
}

#[derive(Clone)]
pub struct SensorHandle<T: Clone> {
    pub cur: Rc<RefCell<Output<T, E>>>,
    pub gets: Rc<Cell<u64>>,
    pub updates: Rc<Cell<u64>>,
    /// fault: when Some(e), the next read is answered as scripted and flips the cell to Err(e) (a live
    /// input that changes between two reads of one call); setting the cell disarms
    pub flap: Rc<Cell<Option<u8>>>,
}

impl<T: Clone> SensorHandle<T> {
    pub fn new() -> Self {
        SensorHandle {
            cur: Rc::new(RefCell::new(Ok(None))),
            gets: Rc::new(Cell::new(0)),
            updates: Rc::new(Cell::new(0)),
            flap: Rc::new(Cell::new(None)),
        }
    }
    pub fn sensor(&self) -> Sensor<T> {
        Sensor {
            cur: self.cur.clone(),
            gets: self.gets.clone(),
            updates: self.updates.clone(),
            flap: self.flap.clone(),
        }
    }
    pub fn set(&self, v: Output<T, E>) {
        *self.cur.borrow_mut() = v;
        self.flap.set(None);
    }
    pub fn peek(&self) -> Output<T, E> {
        self.cur.borrow().clone()
    }
}

impl<T: Clone> Getter<T, E> for Sensor<T> {
    fn get(&self) -> Output<T, E> {
        self.gets.set(self.gets.get() + 1);
        let now = self.cur.borrow().clone();
        if let Some(k) = self.flap.take() {
            *self.cur.borrow_mut() = Err(err_of(k));
        }
        now
    }
}
thread_local! {
    /// While non-zero, every scripted clock advances by this many nanoseconds at each READ (a
    /// free-running counter): code that reads the clock twice within one call sees two instants.
    pub static CLOCK_TICK_PER_GET: Cell<i64> = const { Cell::new(0) };
    /// Fault: while set, every scripted sensor's own `update()` fails with this error. (No stream is
    /// supposed to drive its input's update; one that does and mishandles the failure shows here.)
    pub static SENSOR_UPDATE_ERR: Cell<Option<u8>> = const { Cell::new(None) };
}

impl<T: Clone> Updatable<E> for Sensor<T> {
    fn update(&mut self) -> NothingOrError<E> {
        self.updates.set(self.updates.get() + 1);
        match SENSOR_UPDATE_ERR.with(|c| c.get()) {
            Some(k) => Err(err_of(k)),
            None => Ok(()),
        }
    }
}

/// Build a `Reference<dyn Getter<T, E>>` without `to_dyn!` (unsized coercion of the Rc),
/// so that the harness wiring does not depend on the macro under test.
pub fn dyn_getter<T: 'static, G: Getter<T, E> + 'static>(g: G) -> Reference<dyn Getter<T, E>> {
    let rc: Rc<RefCell<dyn Getter<T, E>>> = Rc::new(RefCell::new(g));
    Reference::from_rc_ref_cell(rc)
}

pub fn dyn_time<G: TimeGetter<E> + 'static>(g: G) -> Reference<dyn TimeGetter<E>> {
    let rc: Rc<RefCell<dyn TimeGetter<E>>> = Rc::new(RefCell::new(g));
    Reference::from_rc_ref_cell(rc)
}

/// A scripted clock.
pub struct SimClock {
    pub cur: Rc<RefCell<TimeOutput<E>>>,
    pub gets: Rc<Cell<u64>>,
    pub update_err: Rc<Cell<Option<u8>>>,
    pub updates: Rc<Cell<u64>>,
}
#[derive(Clone)]
pub struct ClockHandle {
    pub cur: Rc<RefCell<TimeOutput<E>>>,
    pub gets: Rc<Cell<u64>>,
    pub update_err: Rc<Cell<Option<u8>>>,
    pub updates: Rc<Cell<u64>>,
}
impl ClockHandle {
    pub fn new(t: i64) -> Self {
        ClockHandle {
            cur: Rc::new(RefCell::new(Ok(Time(t)))),
            gets: Rc::new(Cell::new(0)),
            update_err: Rc::new(Cell::new(None)),
            updates: Rc::new(Cell::new(0)),
        }
    }
    pub fn clock(&self) -> SimClock {
        SimClock {
            cur: self.cur.clone(),
            gets: self.gets.clone(),
            update_err: self.update_err.clone(),
            updates: self.updates.clone(),
        }
    }
    pub fn set(&self, v: TimeOutput<E>) {
        *self.cur.borrow_mut() = v;
    }
    pub fn peek(&self) -> TimeOutput<E> {
        *self.cur.borrow()
    }
}
impl TimeGetter<E> for SimClock {
    fn get(&self) -> TimeOutput<E> {
        self.gets.set(self.gets.get() + 1);
        let now = *self.cur.borrow();
        let tick = CLOCK_TICK_PER_GET.with(|c| c.get());
        if tick != 0 {
            if let Ok(t) = now {
                *self.cur.borrow_mut() = Ok(Time(t.0.saturating_add(tick)));
            }
        }
        now
    }
}
impl Updatable<E> for SimClock {
    fn update(&mut self) -> NothingOrError<E> {
        self.updates.set(self.updates.get() + 1);
        match self.update_err.get() {
            Some(k) => Err(err_of(k)),
            None => Ok(()),
        }
    }
}
