#![allow(dead_code)]
//! rrtk-sim: deterministic simulation with fault injection for rrtk.
//!
//!   rrtk-sim batch  --prop C05 --tier quick --seed 1 [--runs N] [--workers N]
//!                   --out result.json --replay-dir DIR
//!   rrtk-sim replay FILE          exit 1 iff the file's expected signature recurs
//!   rrtk-sim show   FILE          execute a plan and print its trace and violations
//!   rrtk-sim traces --prop P --tier T --seed S --runs N     (C19 / determinism)

mod api;
mod approx;
mod comb;
mod core;
mod datumop;
mod dev_arena;
mod dev_gen;
mod dev_oracles;
mod node_gen;
mod node_models;
mod node_oracles;
mod node_rig;
mod node_twins;
mod plan;
mod refs;
mod rng;
mod settable;
mod stubs;
mod vals;
mod words;
mod worlds;

use crate::core::*;
use crate::plan::Plan;
use std::collections::BTreeMap;
use std::time::Instant;

fn arg_val(args: &[String], key: &str) -> Option<String> {
    args.iter()
        .position(|a| a == key)
        .and_then(|i| args.get(i + 1).cloned())
}

fn slug(s: &str) -> String {
    s.chars()
        .map(|c| if c.is_ascii_alphanumeric() { c } else { '_' })
        .collect()
}

fn main() {
    install_panic_hook();
    let args: Vec<String> = std::env::args().collect();
    let code = match args.get(1).map(|s| s.as_str()) {
        Some("batch") => cmd_batch(&args),
        Some("replay") => cmd_replay(&args, false),
        Some("show") => cmd_replay(&args, true),
        Some("traces") => cmd_traces(&args),
        Some("genplan") => cmd_genplan(&args),
        _ => {
            eprintln!("usage: rrtk-sim batch|replay|show|traces ...");
            2
        }
    };
    std::process::exit(code);
}

fn cmd_batch(args: &[String]) -> i32 {
    let prop = arg_val(args, "--prop").unwrap_or_default();
    let tier = match arg_val(args, "--tier").as_deref() {
        Some("thorough") => Tier::Thorough,
        _ => Tier::Quick,
    };
    let seed: u64 = arg_val(args, "--seed").and_then(|s| s.parse().ok()).unwrap_or(1);
    let workers: usize = arg_val(args, "--workers")
        .and_then(|s| s.parse().ok())
        .unwrap_or(16);
    let Some(spec) = worlds::spec_for(&prop) else {
        eprintln!("harness error: no batch defined for property {:?}", prop);
        return 2;
    };
    let nruns: u64 = arg_val(args, "--runs")
        .and_then(|s| s.parse().ok())
        .unwrap_or(match tier {
            Tier::Quick => spec.quick_runs,
            Tier::Thorough => spec.thorough_runs,
        });
    let out_path = arg_val(args, "--out").unwrap_or_else(|| "/dev/stdout".into());
    let replay_dir = arg_val(args, "--replay-dir").unwrap_or_else(|| "/verif/replays/tmp".into());
    let t0 = Instant::now();
    let first: u64 = arg_val(args, "--from").and_then(|s| s.parse().ok()).unwrap_or(0);
    let nruns: u64 = arg_val(args, "--to").and_then(|s| s.parse().ok()).unwrap_or(nruns);
    {
        // a run that never returns: persist its plan as the replay, write a result that names it, exit 1
        let (prop2, out2, dir2) = (prop.clone(), out_path.clone(), replay_dir.clone());
        let tier_name = if tier == Tier::Quick { "quick" } else { "thorough" };
        *core::HANG_HANDLER.lock().unwrap() = Some(Box::new(move |idx, mut plan, limit| {
            let sig = format!("{}|hang|{}", prop2, plan.world);
            plan.expect = vec![sig.clone()];
            let _ = std::fs::create_dir_all(&dir2);
            let path = format!("{}/{}-seed{}-run{}.plan", dir2, slug(&sig), seed, idx);
            let detail = format!("the run did not finish within {} s (not minimised)", limit);
            let _ = std::fs::write(&path, format!("# violation: {}\n# detail: {}\n{}", sig, detail, plan.to_text()));
            let json = format!(
                "{{\"prop\":{},\"tier\":{},\"seed\":{},\"runs\":0,\"workers\":0,\"wall_s\":{},\"wall_batch_s\":{},\"nontrivial_runs\":0,\"distinct_nontrivial\":0,\"cells_reached\":0,\"sim_seconds\":0,\"trace_xor\":\"0\",\"trace_sum\":\"0\",\"failing_runs\":1,\"faults_fired\":{{}},\"reach_probes\":{{}},\"counts\":{{}},\"cells_by_space\":{{}},\"hang\":true,\"failures\":[{{\"signature\":{},\"run\":{},\"replay\":{},\"detail\":{},\"ops_original\":{},\"ops_minimised\":{}}}],\"samples\":[]}}",
                jstr(&prop2), jstr(tier_name), seed, limit, limit, jstr(&sig), idx, jstr(&path), jstr(&detail), plan.ops.len(), plan.ops.len()
            );
            let _ = std::fs::write(&out2, json);
            std::process::exit(1);
        }));
    }
    let res = run_batch(&prop, tier, seed, first, nruns, workers, spec.gen, worlds::execute, true);
    let wall_batch = t0.elapsed().as_secs_f64();

    // minimise and persist each distinct failing signature
    let mut fail_json = Vec::new();
    let _ = std::fs::create_dir_all(&replay_dir);
    for (sig, (idx, plan, detail)) in res.failures.iter().take(8) {
        let min = minimise(plan, sig, worlds::execute, worlds::simplify);
        let detail_min = reproduces(&min, sig, worlds::execute).unwrap_or_else(|| detail.clone());
        let mut min = min;
        min.expect = vec![sig.clone()];
        let path = format!("{}/{}-seed{}-run{}.plan", replay_dir, slug(sig), seed, idx);
        let text = format!(
            "# violation: {}\n# detail: {}\n# original ops: {}  minimised ops: {}\n{}",
            sig,
            detail_min.replace('\n', " "),
            plan.ops.len(),
            min.ops.len(),
            min.to_text()
        );
        if let Err(e) = std::fs::write(&path, text) {
            eprintln!("harness error: cannot write {}: {}", path, e);
            return 2;
        }
        fail_json.push(format!(
            "{{\"signature\":{},\"run\":{},\"replay\":{},\"detail\":{},\"ops_original\":{},\"ops_minimised\":{}}}",
            jstr(sig),
            idx,
            jstr(&path),
            jstr(&detail_min),
            plan.ops.len(),
            min.ops.len()
        ));
    }
    let wall = t0.elapsed().as_secs_f64();
    let samples: Vec<String> = res.samples.iter().map(|p| jstr(&p.to_text())).collect();
    let json = format!(
        "{{\"prop\":{},\"tier\":{},\"seed\":{},\"runs\":{},\"workers\":{},\"wall_s\":{:.3},\"wall_batch_s\":{:.3},\
\"nontrivial_runs\":{},\"distinct_nontrivial\":{},\"cells_reached\":{},\"sim_seconds\":{:.3},\
\"trace_xor\":\"{:016x}\",\"trace_sum\":\"{:016x}\",\"failing_runs\":{},\
\"faults_fired\":{},\"reach_probes\":{},\"counts\":{},\"cells_by_space\":{},\"failures\":[{}],\"samples\":[{}]}}",
        jstr(&prop),
        jstr(if tier == Tier::Quick { "quick" } else { "thorough" }),
        seed,
        res.runs,
        workers,
        wall,
        wall_batch,
        res.nontrivial_runs,
        res.distinct_sigs.len(),
        res.cells.len(),
        res.sim_ns as f64 / 1e9,
        res.trace_xor,
        res.trace_sum,
        res.failing_runs,
        jmap_u64(&res.counters, "fault."),
        jmap_u64(&res.counters, "reach."),
        jmap_u64(&res.counters, "n."),
        format!("{{{}}}", res.cells_by_space().iter().map(|(k, v)| format!("{}:{}", jstr(k), v)).collect::<Vec<_>>().join(",")),
        fail_json.join(","),
        samples.join(",")
    );
    if let Err(e) = std::fs::write(&out_path, json) {
        eprintln!("harness error: cannot write {}: {}", out_path, e);
        return 2;
    }
    if res.failures.is_empty() {
        0
    } else {
        1
    }
}

fn cmd_replay(args: &[String], show: bool) -> i32 {
    let Some(path) = args.get(2) else {
        eprintln!("usage: rrtk-sim replay FILE");
        return 2;
    };
    let text = match std::fs::read_to_string(path) {
        Ok(t) => t,
        Err(e) => {
            eprintln!("harness error: cannot read {}: {}", path, e);
            return 2;
        }
    };
    let plan = match Plan::from_text(&text) {
        Ok(p) => p,
        Err(e) => {
            eprintln!("harness error: cannot parse {}: {}", path, e);
            return 2;
        }
    };
    {
        // a replayed run that never returns reproduces a "hang" violation
        let sig = format!("{}|hang|{}", plan.prop, plan.world);
        let expected = plan.expect.is_empty() || plan.expect.contains(&sig);
        let expect_text = plan.expect.join(",");
        std::thread::spawn(move || {
            let limit = core::hang_limit_s();
            std::thread::sleep(std::time::Duration::from_secs(limit));
            println!("REPRODUCED signature={} detail=the run did not finish within {} s", sig, limit);
            if expected {
                std::process::exit(1);
            }
            println!("NOT-REPRODUCED expected={}", expect_text);
            std::process::exit(0);
        });
    }
    let mut ctx = Ctx::new(show);
    if let Err(p) = guarded(|| worlds::execute(&plan, &mut ctx)) {
        ctx.violate(&plan.prop, "escaped_panic", &plan.world, format!("panic {:?} at {}", p.msg, p.short_loc()));
    }
    if show {
        for l in &ctx.trace_lines {
            println!("{}", l);
        }
    }
    let mut seen: BTreeMap<String, String> = BTreeMap::new();
    for v in &ctx.violations {
        seen.entry(v.sig()).or_insert_with(|| v.detail.clone());
    }
    for (s, d) in &seen {
        println!("REPRODUCED signature={} detail={}", s, d);
    }
    println!("TRACE_HASH {:016x}", ctx.trace_hash);
    if plan.expect.is_empty() {
        return if seen.is_empty() { 0 } else { 1 };
    }
    if plan.expect.iter().all(|e| seen.contains_key(e)) {
        1
    } else {
        println!("NOT-REPRODUCED expected={}", plan.expect.join(","));
        0
    }
}

fn cmd_traces(args: &[String]) -> i32 {
    let prop = arg_val(args, "--prop").unwrap_or_default();
    let tier = match arg_val(args, "--tier").as_deref() {
        Some("thorough") => Tier::Thorough,
        _ => Tier::Quick,
    };
    let seed: u64 = arg_val(args, "--seed").and_then(|s| s.parse().ok()).unwrap_or(1);
    let runs: u64 = arg_val(args, "--runs").and_then(|s| s.parse().ok()).unwrap_or(100);
    let full = args.iter().any(|a| a == "--full");
    let strip = args.iter().any(|a| a == "--strip-units");
    let from: u64 = arg_val(args, "--from").and_then(|s| s.parse().ok()).unwrap_or(0);
    if args.iter().any(|a| a == "--canon") {
        vals::CANON.store(true, std::sync::atomic::Ordering::Relaxed);
    }
    let Some(spec) = worlds::spec_for(&prop) else {
        eprintln!("harness error: no batch defined for property {:?}", prop);
        return 2;
    };
    for idx in from..from + runs {
        let mut rng = rng::Rng::for_run(seed, &prop, idx);
        let mut plan = (spec.gen)(&prop, tier, &mut rng, seed, idx);
        if strip && plan.world == "api" {
            api::strip_units(&mut plan);
        }
        if strip {
            // the well-dimensioned twin of an ill-dimensioned plan: explicit unit overrides removed
            for op in plan.ops.iter_mut() {
                if op.code == "S" && op.a.len() > 2 {
                    op.a.truncate(2);
                }
                if op.code == "LQ" && op.a.len() > 3 {
                    op.a.truncate(3);
                }
            }
        }
        let pow = plan.gets("kind").starts_with("ewma") || plan.gets("nodes").contains("exp.") || plan.ops.iter().any(|o| o.code == "POW");
        let mut ctx = Ctx::new(full);
        // a panic that escapes an executor (e.g. in harness set-up code that calls rrtk) must not
        // take the other runs down: it becomes part of this run's trace
        if let Err(p) = guarded(|| worlds::execute(&plan, &mut ctx)) {
            ctx.trace(&format!("ESCAPED-PANIC {:?} at {}", p.msg, p.short_loc()));
        }
        println!("RUN {} {:016x} v={} pow={} world={} ops={}", idx, ctx.trace_hash, ctx.violations.len(), pow as u8, plan.world, plan.ops.len());
        if full {
            for l in &ctx.trace_lines {
                println!("  {}", l);
            }
        }
    }
    0
}

/// Print the plan of one run of a batch (used to turn a run that kills the process into a
/// replay file).
fn cmd_genplan(args: &[String]) -> i32 {
    let prop = arg_val(args, "--prop").unwrap_or_default();
    let tier = match arg_val(args, "--tier").as_deref() {
        Some("thorough") => Tier::Thorough,
        _ => Tier::Quick,
    };
    let seed: u64 = arg_val(args, "--seed").and_then(|s| s.parse().ok()).unwrap_or(1);
    let run: u64 = arg_val(args, "--run").and_then(|s| s.parse().ok()).unwrap_or(0);
    let Some(spec) = worlds::spec_for(&prop) else {
        eprintln!("harness error: no batch defined for property {:?}", prop);
        return 2;
    };
    let mut rng = rng::Rng::for_run(seed, &prop, run);
    let mut plan = (spec.gen)(&prop, tier, &mut rng, seed, run);
    if let Some(e) = arg_val(args, "--expect") {
        plan.expect = vec![e];
    }
    print!("{}", plan.to_text());
    0
}
