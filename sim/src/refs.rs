//! W-ref (C17a): clone / drop / to_dyn! / borrow / borrow_mut histories over all six
//! `Reference` variants with a drop-tracking payload, against the model "one cell, n
//! handles". This crate declares no cargo features, so every `to_dyn!` below is expanded
//! in a calling crate without features named alloc/std (the variant crates, which do
//! declare features, run the same plans).

use crate::core::{guarded, Ctx, Tier};
use crate::plan::Plan;
use crate::rng::Rng;
use rrtk::*;
use std::sync::atomic::{AtomicBool, Ordering};
use std::sync::{Arc, Mutex, RwLock};

pub trait Cellish {
    fn read(&self) -> i64;
    fn write(&mut self, v: i64);
}

pub struct Payload {
    v: i64,
    dropped: Arc<AtomicBool>,
}
impl Drop for Payload {
    fn drop(&mut self) {
        self.dropped.store(true, Ordering::SeqCst);
    }
}
impl Cellish for Payload {
    fn read(&self) -> i64 {
        self.v
    }
    fn write(&mut self, v: i64) {
        self.v = v;
    }
}

enum H {
    C(Reference<Payload>),
    D(Reference<dyn Cellish>),
}
impl H {
    fn read(&self) -> i64 {
        match self {
            H::C(r) => r.borrow().read(),
            H::D(r) => r.borrow().read(),
        }
    }
    /// run `f` on the target while a shared borrow through this handle is alive
    fn with_borrow<R>(&self, f: impl FnOnce(&dyn Cellish) -> R) -> R {
        match self {
            H::C(r) => {
                let g = r.borrow();
                f(&*g)
            }
            H::D(r) => {
                let g = r.borrow();
                f(&*g)
            }
        }
    }
    fn write(&self, v: i64) {
        match self {
            H::C(r) => r.borrow_mut().write(v),
            H::D(r) => r.borrow_mut().write(v),
        }
    }
    fn dup(&self) -> H {
        match self {
            H::C(r) => H::C(r.clone()),
            H::D(r) => H::D(r.clone()),
        }
    }
}

pub const VARIANTS: [&str; 6] = ["ptr", "rc_ref_cell", "ptr_rw_lock", "ptr_mutex", "arc_rw_lock", "arc_mutex"];

/// whether `to_dyn!` lists the variant
fn macro_lists(variant: usize) -> bool {
    matches!(variant, 0 | 1 | 2)
}
/// whether the handles own the target (refcounted)
fn owning(variant: usize) -> bool {
    matches!(variant, 1 | 4 | 5)
}

/// compile-time probe: is `T: Send`? (an inherent method bounded on Send shadows the blanket trait method)
struct SendProbe<T: ?Sized>(core::marker::PhantomData<T>);
trait NotSendFallback {
    fn is_send(&self) -> bool {
        false
    }
}
impl<T: ?Sized> NotSendFallback for SendProbe<T> {}
impl<T: ?Sized + Send> SendProbe<T> {
    fn is_send(&self) -> bool {
        true
    }
}

pub fn execute(plan: &Plan, ctx: &mut Ctx) {
    // a Reference may hold an Rc or a bare pointer: whatever its payload, it must not be movable to (or
    // shareable with) another thread, or clones on two threads race on the Rc counts
    if SendProbe::<Reference<Payload>>(core::marker::PhantomData).is_send() || SendProbe::<&Reference<Payload>>(core::marker::PhantomData).is_send() {
        ctx.violate("C17", "reference_crosses_threads", "send_sync", "Reference<T> is Send or Sync for a Send + Sync payload: an Rc-backed or pointer-backed handle can be moved to / shared with another thread in safe code".to_string());
    }
    ctx.count("reach.send_probe");
    let variant = plan.get("variant").rem_euclid(6) as usize;
    // rrtk built without std (alloc only) has the pointer and the Rc variant; the same histories run on those
    #[cfg(any(feature = "v_libm", feature = "v_micromath"))]
    let variant = variant % 2;
    let vname = VARIANTS[variant];
    let dropped = Arc::new(AtomicBool::new(false));
    let payload = Payload { v: plan.get("init"), dropped: dropped.clone() };
    // raw targets of the pointer variants are owned by the harness and freed at the end
    let mut raw_ptr: Option<*mut Payload> = None;
    let mut raw_rw: Option<*mut RwLock<Payload>> = None;
    let mut raw_mx: Option<*mut Mutex<Payload>> = None;
    let first: Reference<Payload> = match variant {
        0 => {
            let p = Box::into_raw(Box::new(payload));
            raw_ptr = Some(p);
            unsafe { Reference::from_ptr(p) }
        }
        1 => rc_ref_cell_reference(payload),
        #[cfg(not(any(feature = "v_libm", feature = "v_micromath")))]
        2 => {
            let p = Box::into_raw(Box::new(RwLock::new(payload)));
            raw_rw = Some(p);
            unsafe { Reference::from_ptr_rw_lock(p as *const RwLock<Payload>) }
        }
        #[cfg(not(any(feature = "v_libm", feature = "v_micromath")))]
        3 => {
            let p = Box::into_raw(Box::new(Mutex::new(payload)));
            raw_mx = Some(p);
            unsafe { Reference::from_ptr_mutex(p as *const Mutex<Payload>) }
        }
        #[cfg(not(any(feature = "v_libm", feature = "v_micromath")))]
        4 => arc_rw_lock_reference(payload),
        #[cfg(not(any(feature = "v_libm", feature = "v_micromath")))]
        _ => arc_mutex_reference(payload),
        #[cfg(any(feature = "v_libm", feature = "v_micromath"))]
        _ => unreachable!(),
    };
    let mut handles: Vec<Option<H>> = vec![Some(H::C(first))];
    let mut cell = plan.get("init");
    let mut alive = 1usize;
    for (oi, op) in plan.ops.iter().enumerate() {
        ctx.cur_op = oi;
        if alive == 0 {
            break;
        }
        // pick the k-th live handle
        let live: Vec<usize> = handles.iter().enumerate().filter(|(_, h)| h.is_some()).map(|(i, _)| i).collect();
        let h = live[(op.arg(0).rem_euclid(live.len() as i64)) as usize];
        ctx.sig((variant as u64) << 8 | op.code.bytes().next().unwrap_or(0) as u64);
        let code = op.code.as_str();
        let r = guarded(|| -> Option<String> {
            match code {
                "CL" => {
                    let n = handles[h].as_ref().unwrap().dup();
                    handles.push(Some(n));
                    alive += 1;
                    None
                }
                "DR" => {
                    handles[h] = None;
                    alive -= 1;
                    None
                }
                "DY" => {
                    // convert a clone of the handle to a trait-object reference
                    // (the argument is a variable, a block with a side effect, or an `Option::take`: it denotes
                    // ONE Reference, and the result must denote that Reference's object)
                    let mut complaint = None;
                    if let Some(H::C(r)) = handles[h].as_ref() {
                        let c = r.clone();
                        let d: Reference<dyn Cellish> = match op.arg(1) {
                            1 => {
                                let evals = std::cell::Cell::new(0u32);
                                let d = to_dyn!(Cellish, {
                                    evals.set(evals.get() + 1);
                                    c.clone()
                                });
                                if evals.get() != 1 {
                                    complaint = Some(format!("to_dyn! evaluated its argument expression {} times: the result denotes the object of the last evaluation, not of the Reference that was passed", evals.get()));
                                }
                                d
                            }
                            2 => {
                                let mut slot = Some(c);
                                to_dyn!(Cellish, slot.take().unwrap())
                            }
                            _ => to_dyn!(Cellish, c),
                        };
                        handles.push(Some(H::D(d)));
                        alive += 1;
                    }
                    complaint
                }
                "RD" => {
                    let got = handles[h].as_ref().unwrap().read();
                    if got != cell {
                        Some(format!("read through handle {} saw {}, the last write through any handle was {}", h, got, cell))
                    } else {
                        None
                    }
                }
                // RR h k: two shared borrows alive at once in this thread, through handle h and handle k
                // (for the Mutex-backed variants, where that cannot work, a plain read)
                "RR" => {
                    let h2 = live[(op.arg(1).rem_euclid(live.len() as i64)) as usize];
                    let (a, b) = if matches!(variant, 3 | 5) {
                        let x = handles[h].as_ref().unwrap().read();
                        (x, x)
                    } else {
                        let (ha, hb) = (handles[h].as_ref().unwrap(), handles[h2].as_ref().unwrap());
                        ha.with_borrow(|x| hb.with_borrow(|y| (x.read(), y.read())))
                    };
                    if a != cell || b != cell {
                        Some(format!("two simultaneous shared borrows (handles {} and {}) saw {} and {}, the last write was {}", h, h2, a, b, cell))
                    } else {
                        None
                    }
                }
                "WR" => {
                    handles[h].as_ref().unwrap().write(op.arg(1));
                    cell = op.arg(1);
                    None
                }
                _ => None,
            }
        });
        match r {
            Err(p) => {
                let listed = macro_lists(variant);
                if code == "DY" && !listed {
                    // the macro does not list this variant: unimplemented!() is its documented answer
                    ctx.count("reach.to_dyn_unlisted_variant");
                    ctx.trace(&format!("{} {} unlisted", oi, code));
                    continue;
                }
                let oracle = if code == "DY" { "to_dyn_panics" } else { "panic" };
                ctx.violate("C17", oracle, vname, format!("op {} ({} on variant {}): panic {:?} at {}", oi, code, vname, p.msg, p.short_loc()));
                break;
            }
            Ok(Some(msg)) => ctx.violate("C17", "aliasing", vname, format!("op {} ({}): {}", oi, code, msg)),
            Ok(None) => {}
        }
        match code {
            "CL" => ctx.count("fault.clone"),
            "DR" => ctx.count("fault.drop_handle"),
            "DY" => {
                ctx.count("fault.to_dyn");
                ctx.nontrivial = true;
            }
            _ => {}
        }
        // every live handle sees the cell (aliasing) — checked on all handles, not only h
        for (k, hh) in handles.iter().enumerate() {
            if let Some(hh) = hh {
                let got = guarded(|| hh.read());
                match got {
                    Ok(g) if g == cell => {}
                    Ok(g) => {
                        ctx.violate("C17", "aliasing", vname, format!("op {} ({}): handle {} reads {}, expected {}", oi, code, k, g, cell));
                    }
                    Err(p) => {
                        ctx.violate("C17", "panic", vname, format!("op {}: reading handle {} panicked: {:?}", oi, k, p.msg));
                    }
                }
            }
        }
        // lifetime: the target is dropped exactly when the last owning handle goes
        let is_dropped = dropped.load(Ordering::SeqCst);
        if owning(variant) {
            if alive > 0 && is_dropped {
                ctx.violate("C17", "target_freed_early", vname, format!("op {} ({}): the target was dropped while {} handles are alive", oi, code, alive));
            }
            if alive == 0 && !is_dropped {
                ctx.violate("C17", "target_leaked", vname, format!("op {} ({}): the last handle is gone but the target was not dropped", oi, code));
            }
            if alive == 0 {
                ctx.count("reach.last_handle_dropped");
            }
        } else if is_dropped {
            ctx.violate("C17", "target_freed_early", vname, format!("op {} ({}): a pointer-variant handle dropped the target", oi, code));
        }
        ctx.trace(&format!("{} {} {:?} cell={} alive={}", oi, code, op.a, cell, alive));
    }
    drop(handles);
    // free harness-owned raw targets
    unsafe {
        if let Some(p) = raw_ptr {
            drop(Box::from_raw(p));
        }
        if let Some(p) = raw_rw {
            drop(Box::from_raw(p));
        }
        if let Some(p) = raw_mx {
            drop(Box::from_raw(p));
        }
    }
}

pub fn generate(prop: &str, tier: Tier, rng: &mut Rng, seed: u64, run: u64) -> Plan {
    let mut plan = Plan::new("refs", prop, seed, run);
    plan.set("variant", (run % 6) as i64);
    plan.set("init", rng.range(-1000, 1000));
    let n = rng.range(1, 12);
    let _ = tier;
    let mut uniq = 10_000;
    for _ in 0..n {
        let h = rng.below(8) as i64;
        uniq += 1;
        match rng.below(10) {
            0 | 1 => plan.push("CL", &[h]),
            2 => plan.push("DR", &[h]),
            3 | 4 => plan.push("DY", &[h, rng.below(3) as i64]),
            5 => plan.push("RD", &[h]),
            6 => {
                if rng.chance(0.5) {
                    plan.push("RR", &[h, rng.below(8) as i64]);
                } else {
                    plan.push("RD", &[h]);
                }
            }
            _ => plan.push("WR", &[h, uniq]),
        }
    }
    // often end by dropping everything (lifetime clause)
    if rng.chance(0.5) {
        for _ in 0..16 {
            plan.push("DR", &[0]);
        }
    }
    plan
}

pub fn simplify(_plan: &Plan) -> Vec<Plan> {
    Vec::new()
}
