//! Composition twins (fault-free histories only): the same quantity computed by a
//! controller / converter assembled from the crate's own primitive streams, the way
//! examples/pid.rs wires them. Judged against the same model bound as the primary.

use crate::stubs::*;
use crate::vals::*;
use rrtk::streams::converters::*;
use rrtk::streams::math::*;
use rrtk::*;

type DQ = Reference<dyn Getter<Quantity, E>>;
type DF = Reference<dyn Getter<f32, E>>;

fn sample_q(h: &SensorHandle<Quantity>, t: i64, x: f32, unit: Unit) {
    h.set(Ok(Some(Datum::new(Time(t), Quantity::new(x, unit)))));
}

/// PID assembled from DifferenceStream, IntegralStream, DerivativeStream, NoneToValue,
/// ProductStream, QuantityToFloat and SumStream. Returns the output after each sample.
pub fn composed_pid(kp: f32, ki: f32, kd: f32, setpoint: f32, samples: &[(i64, f32)]) -> Vec<Out> {
    let h = SensorHandle::<Quantity>::new();
    let input: DQ = dyn_getter::<Quantity, _>(h.sensor());
    let tg = rc_ref_cell_reference(TimeGetterFromGetter::new(input.clone()));
    let cg = |v: Quantity| -> DQ { dyn_getter::<Quantity, _>(ConstantGetter::new(tg.clone(), v)) };
    let sp = cg(Quantity::new(setpoint, MILLIMETER));
    let error: DQ = dyn_getter::<Quantity, _>(DifferenceStream::new(sp, input.clone()));
    let int: DQ = dyn_getter::<Quantity, _>(IntegralStream::new(error.clone()));
    let drv: DQ = dyn_getter::<Quantity, _>(DerivativeStream::new(error.clone()));
    let int_z: DQ = dyn_getter::<Quantity, _>(NoneToValue::new(int.clone(), tg.clone(), Quantity::new(0.0, MILLIMETER)));
    let drv_z: DQ = dyn_getter::<Quantity, _>(NoneToValue::new(drv.clone(), tg.clone(), Quantity::new(0.0, MILLIMETER)));
    let kp_mul: DQ = dyn_getter::<Quantity, _>(ProductStream::new([cg(Quantity::dimensionless(kp)), error.clone()]));
    let ki_mul: DQ = dyn_getter::<Quantity, _>(ProductStream::new([cg(Quantity::dimensionless(ki)), int_z]));
    let kd_mul: DQ = dyn_getter::<Quantity, _>(ProductStream::new([cg(Quantity::dimensionless(kd)), drv_z]));
    let pf: DF = dyn_getter::<f32, _>(QuantityToFloat::new(kp_mul));
    let inf: DF = dyn_getter::<f32, _>(QuantityToFloat::new(ki_mul));
    let df: DF = dyn_getter::<f32, _>(QuantityToFloat::new(kd_mul));
    let out = SumStream::new([pf.clone(), inf.clone(), df.clone()]);
    let mut res = Vec::new();
    for (t, x) in samples {
        sample_q(&h, *t, *x, MILLIMETER);
        let _ = int.borrow_mut().update();
        let _ = drv.borrow_mut().update();
        let _ = pf.borrow_mut().update();
        let _ = inf.borrow_mut().update();
        let _ = df.borrow_mut().update();
        res.push(norm(&out.get()));
    }
    res
}

/// velocity = Integral(acc), position = Integral(Integral(acc)); returns (vel, pos) per sample.
pub fn composed_a2s(samples: &[(i64, f32)]) -> Vec<(Out, Out)> {
    let h = SensorHandle::<Quantity>::new();
    let input: DQ = dyn_getter::<Quantity, _>(h.sensor());
    let vel: DQ = dyn_getter::<Quantity, _>(IntegralStream::new(input));
    let pos: DQ = dyn_getter::<Quantity, _>(IntegralStream::new(vel.clone()));
    let mut res = Vec::new();
    for (t, x) in samples {
        sample_q(&h, *t, *x, MILLIMETER_PER_SECOND_SQUARED);
        let _ = vel.borrow_mut().update();
        let _ = pos.borrow_mut().update();
        res.push((norm(&vel.borrow().get()), norm(&pos.borrow().get())));
    }
    res
}

/// velocity = Derivative(pos), acceleration = Derivative(Derivative(pos)); returns (vel, acc).
pub fn composed_p2s(samples: &[(i64, f32)]) -> Vec<(Out, Out)> {
    let h = SensorHandle::<Quantity>::new();
    let input: DQ = dyn_getter::<Quantity, _>(h.sensor());
    let vel: DQ = dyn_getter::<Quantity, _>(DerivativeStream::new(input));
    let acc: DQ = dyn_getter::<Quantity, _>(DerivativeStream::new(vel.clone()));
    let mut res = Vec::new();
    for (t, x) in samples {
        sample_q(&h, *t, *x, MILLIMETER);
        let _ = vel.borrow_mut().update();
        let _ = acc.borrow_mut().update();
        res.push((norm(&vel.borrow().get()), norm(&acc.borrow().get())));
    }
    res
}

/// velocity-to-state twin: acceleration = Derivative(vel), position = Integral(vel).
pub fn composed_v2s(samples: &[(i64, f32)]) -> Vec<(Out, Out)> {
    let h = SensorHandle::<Quantity>::new();
    let input: DQ = dyn_getter::<Quantity, _>(h.sensor());
    let acc: DQ = dyn_getter::<Quantity, _>(DerivativeStream::new(input.clone()));
    let pos: DQ = dyn_getter::<Quantity, _>(IntegralStream::new(input));
    let mut res = Vec::new();
    for (t, x) in samples {
        sample_q(&h, *t, *x, MILLIMETER_PER_SECOND);
        let _ = acc.borrow_mut().update();
        let _ = pos.borrow_mut().update();
        res.push((norm(&acc.borrow().get()), norm(&pos.borrow().get())));
    }
    res
}
