//! W-node: one real stateful rrtk stream wired to scripted leaf sensors. This file builds
//! the rig from a plan header and executes op lists on it, recording what rrtk returned.
//! No oracle lives here.

use crate::core::{guarded, PanicInfo};
use crate::plan::{Op, Plan};
use crate::stubs::*;
use crate::vals::*;
use rrtk::streams::control::*;
use rrtk::streams::converters::*;
use rrtk::streams::flow::*;
use rrtk::streams::math::*;
use rrtk::*;

pub const KINDS: [&str; 14] = [
    "pid",
    "cpid",
    "ewma_f",
    "ewma_q",
    "ma_f",
    "ma_q",
    "integral",
    "derivative",
    "a2s",
    "v2s",
    "p2s",
    "f2q",
    "q2f",
    "freeze",
];

pub fn kind_index(k: &str) -> usize {
    KINDS.iter().position(|x| *x == k).unwrap_or(0)
}

#[derive(Clone, Copy, PartialEq, Eq, Debug)]
pub enum InTy {
    F,
    Q,
    S,
}

pub fn input_type(kind: &str) -> InTy {
    match kind {
        "pid" | "ewma_f" | "ma_f" | "f2q" | "freeze" => InTy::F,
        "cpid" => InTy::S,
        _ => InTy::Q,
    }
}

/// Harness-side script state: what each leaf currently delivers.
#[derive(Clone, Debug, PartialEq)]
pub struct Script {
    pub sen: Out,
    pub cond: Out,
    pub fol: Out,
    pub following: bool,
    /// command in force (cpid only): kind, bits
    pub cmd: (u8, u32),
    /// FLAP e: the input is live and changes under the node's feet - it answers the FIRST read of the next
    /// update with what it holds and every later read with Err(e) (a datum that expires, a value another
    /// task overwrites, between two reads of one call)
    pub flap_armed: Option<u8>,
    /// the update that consumed the flap has happened: from the next op on the input holds Err(e)
    pub flap_after_update: Option<u8>,
}

pub trait NodeOps {
    fn update(&mut self) -> NothingOrError<E>;
    fn get(&self) -> Out;
    fn set(&mut self, _c: Command) -> NothingOrError<E> {
        Ok(())
    }
    fn follow(&mut self, _g: Reference<dyn Getter<Command, E>>) {}
    fn unfollow(&mut self) {}
    fn reset(&mut self) {}
    fn last_request(&self) -> Option<(u8, u32)> {
        None
    }
}

struct NF<G: Getter<f32, E>>(G);
impl<G: Getter<f32, E>> NodeOps for NF<G> {
    fn update(&mut self) -> NothingOrError<E> {
        self.0.update()
    }
    fn get(&self) -> Out {
        norm(&self.0.get())
    }
}
struct NQ<G: Getter<Quantity, E>>(G);
impl<G: Getter<Quantity, E>> NodeOps for NQ<G> {
    fn update(&mut self) -> NothingOrError<E> {
        self.0.update()
    }
    fn get(&self) -> Out {
        norm(&self.0.get())
    }
}
struct NS<G: Getter<State, E>>(G);
impl<G: Getter<State, E>> NodeOps for NS<G> {
    fn update(&mut self) -> NothingOrError<E> {
        self.0.update()
    }
    fn get(&self) -> Out {
        norm(&self.0.get())
    }
}
struct NCpid(CommandPID<dyn Getter<State, E>, E>);
impl NodeOps for NCpid {
    fn update(&mut self) -> NothingOrError<E> {
        self.0.update()
    }
    fn get(&self) -> Out {
        norm(&self.0.get())
    }
    fn set(&mut self, c: Command) -> NothingOrError<E> {
        self.0.set(c)
    }
    fn follow(&mut self, g: Reference<dyn Getter<Command, E>>) {
        self.0.follow(g)
    }
    fn unfollow(&mut self) {
        self.0.stop_following()
    }
    fn reset(&mut self) {
        self.0.reset()
    }
    fn last_request(&self) -> Option<(u8, u32)> {
        self.0.get_last_request().as_ref().map(cmd_bits)
    }
}

pub struct Rig {
    pub kind: String,
    pub sf: SensorHandle<f32>,
    pub sq: SensorHandle<Quantity>,
    pub ss: SensorHandle<State>,
    pub sb: SensorHandle<bool>,
    pub sc: SensorHandle<Command>,
    pub node: Box<dyn NodeOps>,
    /// the very References the node reads its inputs through (the caller keeps a handle, as any program
    /// that also displays or logs the sensor does)
    pub in_f: Reference<dyn Getter<f32, E>>,
    pub in_q: Reference<dyn Getter<Quantity, E>>,
    pub in_s: Reference<dyn Getter<State, E>>,
    pub in_b: Reference<dyn Getter<bool, E>>,
    /// header `hold_inputs`: the caller is looking at the inputs (shared borrows alive) while it updates
    /// and reads the node
    pub hold: bool,
}

pub fn out_to_f32(o: &Out) -> Output<f32, E> {
    match o {
        Out::Err(e) => Err(e.to_rrtk()),
        Out::None => Ok(None),
        Out::Some(t, Val::F(b)) => Ok(Some(Datum::new(Time(*t), f32::from_bits(*b)))),
        Out::Some(t, Val::Q(b, _, _)) => Ok(Some(Datum::new(Time(*t), f32::from_bits(*b)))),
        Out::Some(t, _) => Ok(Some(Datum::new(Time(*t), 0.0))),
    }
}
pub fn out_to_q(o: &Out) -> Output<Quantity, E> {
    match o {
        Out::Err(e) => Err(e.to_rrtk()),
        Out::None => Ok(None),
        Out::Some(t, Val::Q(b, m, s)) => Ok(Some(Datum::new(
            Time(*t),
            Quantity::new(f32::from_bits(*b), Unit::new(*m, *s)),
        ))),
        Out::Some(t, Val::F(b)) => Ok(Some(Datum::new(
            Time(*t),
            Quantity::dimensionless(f32::from_bits(*b)),
        ))),
        Out::Some(t, _) => Ok(Some(Datum::new(Time(*t), Quantity::dimensionless(0.0)))),
    }
}
pub fn out_to_state(o: &Out) -> Output<State, E> {
    match o {
        Out::Err(e) => Err(e.to_rrtk()),
        Out::None => Ok(None),
        Out::Some(t, Val::S(s)) => Ok(Some(Datum::new(
            Time(*t),
            State::new_raw(
                f32::from_bits(s[0]),
                f32::from_bits(s[1]),
                f32::from_bits(s[2]),
            ),
        ))),
        Out::Some(t, _) => Ok(Some(Datum::new(Time(*t), State::default()))),
    }
}
pub fn out_to_bool(o: &Out) -> Output<bool, E> {
    match o {
        Out::Err(e) => Err(e.to_rrtk()),
        Out::None => Ok(None),
        Out::Some(t, Val::B(b)) => Ok(Some(Datum::new(Time(*t), *b))),
        Out::Some(t, _) => Ok(Some(Datum::new(Time(*t), false))),
    }
}
pub fn out_to_cmd(o: &Out) -> Output<Command, E> {
    match o {
        Out::Err(e) => Err(e.to_rrtk()),
        Out::None => Ok(None),
        Out::Some(t, Val::C(k, b)) => Ok(Some(Datum::new(Time(*t), cmd_from(*k, *b)))),
        Out::Some(t, _) => Ok(Some(Datum::new(Time(*t), Command::Position(0.0)))),
    }
}

pub fn kvals_from(plan: &Plan) -> PositionDerivativeDependentPIDKValues {
    let g = |k: &str| plan.getf(k);
    PositionDerivativeDependentPIDKValues::new(
        PIDKValues::new(g("pkp"), g("pki"), g("pkd")),
        PIDKValues::new(g("vkp"), g("vki"), g("vkd")),
        PIDKValues::new(g("akp"), g("aki"), g("akd")),
    )
}

impl Rig {
    pub fn build(plan: &Plan, init: &Script) -> Rig {
        let kind = plan.gets("kind").to_string();
        let sf = SensorHandle::<f32>::new();
        let sq = SensorHandle::<Quantity>::new();
        let ss = SensorHandle::<State>::new();
        let sb = SensorHandle::<bool>::new();
        let sc = SensorHandle::<Command>::new();
        let in_f = dyn_getter::<f32, _>(sf.sensor());
        let in_q = dyn_getter::<Quantity, _>(sq.sensor());
        let in_s = dyn_getter::<State, _>(ss.sensor());
        let in_b = dyn_getter::<bool, _>(sb.sensor());
        let df = || in_f.clone();
        let dq = || in_q.clone();
        let node: Box<dyn NodeOps> = match kind.as_str() {
            "pid" => Box::new(NF(PIDControllerStream::new(
                df(),
                plan.getf("setpoint"),
                PIDKValues::new(plan.getf("kp"), plan.getf("ki"), plan.getf("kd")),
            ))),
            "cpid" => Box::new(NCpid(CommandPID::new(
                in_s.clone(),
                cmd_from(init.cmd.0, init.cmd.1),
                kvals_from(plan),
            ))),
            "ewma_f" => Box::new(NF(EWMAStream::<f32, _, E>::new(df(), plan.getf("smoothing")))),
            "ewma_q" => Box::new(NQ(EWMAStream::<Quantity, _, E>::new(
                dq(),
                plan.getf("smoothing"),
            ))),
            "ma_f" => Box::new(NF(MovingAverageStream::<f32, _, E>::new(
                df(),
                Time(plan.get("window")),
            ))),
            "ma_q" => Box::new(NQ(MovingAverageStream::<Quantity, _, E>::new(
                dq(),
                Time(plan.get("window")),
            ))),
            "integral" => Box::new(NQ(IntegralStream::new(dq()))),
            "derivative" => Box::new(NQ(DerivativeStream::new(dq()))),
            "a2s" => Box::new(NS(AccelerationToState::new(dq()))),
            "v2s" => Box::new(NS(VelocityToState::new(dq()))),
            "p2s" => Box::new(NS(PositionToState::new(dq()))),
            "f2q" => Box::new(NQ(FloatToQuantity::new(
                Unit::new(plan.get("um") as i8, plan.get("us") as i8),
                rc_ref_cell_reference(sf.sensor()),
            ))),
            "q2f" => Box::new(NF(QuantityToFloat::new(dq()))),
            "freeze" => Box::new(NF(FreezeStream::<f32, _, _, E>::new(
                in_b.clone(),
                df(),
            ))),
            other => panic!("harness: unknown node kind {:?}", other),
        };
        let mut rig = Rig {
            kind,
            sf,
            sq,
            ss,
            sb,
            sc,
            node,
            in_f,
            in_q,
            in_s,
            in_b,
            hold: plan.get("hold_inputs") != 0,
        };
        rig.load_script(init);
        if init.following {
            let g = dyn_getter::<Command, _>(rig.sc.sensor());
            rig.node.follow(g);
        }
        rig
    }
    pub fn set_sensor(&mut self, o: &Out) {
        match input_type(&self.kind) {
            InTy::F => self.sf.set(out_to_f32(o)),
            InTy::Q => self.sq.set(out_to_q(o)),
            InTy::S => self.ss.set(out_to_state(o)),
        }
    }
    pub fn load_script(&mut self, s: &Script) {
        self.set_sensor(&s.sen);
        self.sb.set(out_to_bool(&s.cond));
        self.sc.set(out_to_cmd(&s.fol));
    }
}

/// What rrtk did at one op.
#[derive(Clone, Debug, PartialEq)]
pub struct Rec {
    /// return value of update()/set() when the op was one
    pub ret: Option<Option<Er>>,
    /// get() right after the op
    pub out: Out,
    /// all gets performed at this op were equal to `out`
    pub pure_reads: bool,
    pub last_request: Option<(u8, u32)>,
    pub panic: Option<PanicInfo>,
}

impl PartialEq for PanicInfo {
    fn eq(&self, o: &Self) -> bool {
        self.msg == o.msg && self.loc == o.loc
    }
}

/// Decode a sensor-setting op into the Out it scripts.
///   S t bits [m s]      present f32 / quantity sample
///   SS t p v a          present state sample
///   N                   absent          E k   error k
pub fn sensor_op(plan: &Plan, op: &Op) -> Option<Out> {
    let kind = plan.gets("kind");
    match op.code.as_str() {
        "S" => Some(match input_type(kind) {
            InTy::F => Out::Some(op.arg(0), Val::F(op.arg(1) as u32)),
            _ => {
                let (m, s) = if op.a.len() >= 4 {
                    (op.arg(2) as i8, op.arg(3) as i8)
                } else {
                    (plan.get("um") as i8, plan.get("us") as i8)
                };
                Out::Some(op.arg(0), Val::Q(op.arg(1) as u32, m, s))
            }
        }),
        "SS" => Some(Out::Some(
            op.arg(0),
            Val::S([op.arg(1) as u32, op.arg(2) as u32, op.arg(3) as u32]),
        )),
        "N" => Some(Out::None),
        "E" => Some(Out::Err(er_of(op.arg(0) as u8))),
        _ => None,
    }
}

/// Apply the harness-side effect of an op on the script (no rrtk involved).
pub fn script_step(plan: &Plan, script: &mut Script, op: &Op) {
    if let Some(e) = script.flap_after_update.take() {
        script.sen = Out::Err(er_of(e));
    }
    if let Some(o) = sensor_op(plan, op) {
        script.sen = o;
        script.flap_armed = None;
        return;
    }
    match op.code.as_str() {
        "FLAP" => script.flap_armed = Some(op.arg(0) as u8),
        "CS" => script.cond = Out::Some(op.arg(0), Val::B(op.arg(1) != 0)),
        "CN" => script.cond = Out::None,
        "CE" => script.cond = Out::Err(er_of(op.arg(0) as u8)),
        "FS" => script.fol = Out::Some(op.arg(0), Val::C(op.arg(1) as u8, op.arg(2) as u32)),
        "FN" => script.fol = Out::None,
        "FE" => script.fol = Out::Err(er_of(op.arg(0) as u8)),
        "FOLLOW" => script.following = true,
        "UNFOLLOW" => script.following = false,
        "SET" => set_cmd_in_force(script, op.arg(0) as u8, op.arg(1) as u32),
        "U" => {
            if let Some(e) = script.flap_armed.take() {
                script.flap_after_update = Some(e);
            }
            // a followed present command becomes the command in force (if the getter is ok)
            if plan.gets("kind") == "cpid" && script.following {
                if let Out::Some(_, Val::C(k, b)) = script.fol {
                    set_cmd_in_force(script, k, b);
                }
            }
        }
        _ => {}
    }
}

/// The command in force changes only when the new one compares unequal (so +0.0 does not
/// replace -0.0): this is the rule "setting a command equal to the current one changes nothing".
fn set_cmd_in_force(script: &mut Script, kind: u8, bits: u32) {
    let same = kind == script.cmd.0 && f32::from_bits(bits) == f32::from_bits(script.cmd.1);
    if !same {
        script.cmd = (kind, bits);
    }
}

pub fn initial_script(plan: &Plan) -> Script {
    Script {
        sen: Out::None,
        cond: Out::None,
        fol: Out::None,
        following: false,
        cmd: (plan.get("cmd_kind") as u8, plan.get("cmd_bits") as u32),
        flap_armed: None,
        flap_after_update: None,
    }
}

/// Execute `ops` on a fresh rig started from `init`. Execution stops at the first panic.
pub fn run_ops(plan: &Plan, ops: &[Op], init: &Script) -> Vec<Rec> {
    let mut recs = Vec::with_capacity(ops.len());
    let built = guarded(|| Rig::build(plan, init));
    let mut rig = match built {
        Ok(r) => r,
        Err(p) => {
            recs.push(Rec {
                ret: None,
                out: Out::None,
                pure_reads: true,
                last_request: None,
                panic: Some(p),
            });
            return recs;
        }
    };
    let mut script = init.clone();
    SENSOR_UPDATE_ERR.with(|c| c.set(None));
    for op in ops {
        let r = guarded(|| {
            let mut ret = None;
            let mut extra = 0;
            script_step_rig(plan, &mut rig, &mut script, op);
            let _looking = if rig.hold {
                Some((rig.in_f.borrow(), rig.in_q.borrow(), rig.in_s.borrow(), rig.in_b.borrow()))
            } else {
                None
            };
            match op.code.as_str() {
                // SUE k: from now on the sensors' own update() fails with error k (0: works again)
                "SUE" => SENSOR_UPDATE_ERR.with(|c| c.set(if op.arg(0) == 0 { None } else { Some(op.arg(0) as u8) })),
                "U" => ret = Some(norm_unit(&rig.node.update())),
                "SET" => {
                    ret = Some(norm_unit(
                        &rig.node.set(cmd_from(op.arg(0) as u8, op.arg(1) as u32)),
                    ))
                }
                "RESET" => rig.node.reset(),
                "G" => extra = op.arg(0).clamp(0, 8),
                _ => {}
            }
            let out = rig.node.get();
            let mut pure_reads = true;
            for _ in 0..extra {
                if rig.node.get() != out {
                    pure_reads = false;
                }
            }
            (ret, out, pure_reads, rig.node.last_request())
        });
        match r {
            Ok((ret, out, pure_reads, last_request)) => recs.push(Rec {
                ret,
                out,
                pure_reads,
                last_request,
                panic: None,
            }),
            Err(p) => {
                recs.push(Rec {
                    ret: None,
                    out: Out::None,
                    pure_reads: true,
                    last_request: None,
                    panic: Some(p),
                });
                break;
            }
        }
    }
    recs
}

fn script_step_rig(plan: &Plan, rig: &mut Rig, script: &mut Script, op: &Op) {
    let was_following = script.following;
    script_step(plan, script, op);
    rig.load_script(script);
    // (load_script has just re-scripted the sensors, which also disarms them)
    if op.code == "U" {
        if let Some(e) = script.flap_after_update {
            rig.sf.flap.set(Some(e));
            rig.sq.flap.set(Some(e));
            rig.ss.flap.set(Some(e));
        }
    }
    if script.following && !was_following {
        let g = dyn_getter::<Command, _>(rig.sc.sensor());
        rig.node.follow(g);
    } else if !script.following && was_following {
        rig.node.unfollow();
    }
}
