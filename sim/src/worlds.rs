//! Dispatch: which generator serves which property, which executor runs which world.

use crate::core::{Ctx, GenFn};
use crate::plan::Plan;

pub struct Spec {
    pub gen: GenFn,
    pub quick_runs: u64,
    pub thorough_runs: u64,
}

pub fn spec_for(prop: &str) -> Option<Spec> {
    Some(match prop {
        "C04" => Spec { gen: crate::node_gen::generate, quick_runs: 100_000, thorough_runs: 5_000_000 },
        "C05" => Spec { gen: crate::node_gen::generate, quick_runs: 200_000, thorough_runs: 8_400_000 },
        "C10" => Spec { gen: crate::node_gen::generate, quick_runs: 100_000, thorough_runs: 5_000_000 },
        "C11" => Spec { gen: crate::node_gen::generate, quick_runs: 100_000, thorough_runs: 6_000_000 },
        "C12" => Spec { gen: crate::node_gen::generate, quick_runs: 100_000, thorough_runs: 5_000_000 },
        "C08" => Spec { gen: crate::dev_gen::generate, quick_runs: 60_000, thorough_runs: 3_000_000 },
        "C09" => Spec { gen: crate::dev_gen::generate, quick_runs: 60_000, thorough_runs: 5_000_000 },
        "C13" => Spec { gen: crate::dev_gen::generate, quick_runs: 60_000, thorough_runs: 3_000_000 },
        "C20" => Spec { gen: crate::dev_gen::generate, quick_runs: 60_000, thorough_runs: 4_000_000 },
        "C02" => Spec { gen: gen_c02, quick_runs: 120_000, thorough_runs: 4_000_000 },
        "C03" => Spec { gen: gen_c03, quick_runs: 120_000, thorough_runs: 4_000_000 },
        "C15" => Spec { gen: crate::settable::generate, quick_runs: 120_000, thorough_runs: 20_000_000 },
        "C17" => Spec { gen: crate::refs::generate, quick_runs: 20_000, thorough_runs: 4_000_000 },
        "C16" => Spec { gen: gen_c16, quick_runs: 4_000, thorough_runs: 400_000 },
        "C19" | "C19ill" => Spec { gen: gen_c19, quick_runs: 300, thorough_runs: 30_000 },
        _ => return None,
    })
}

pub fn execute(plan: &Plan, ctx: &mut Ctx) {
    crate::stubs::CLOCK_TICK_PER_GET.with(|c| c.set(0));
    execute_world(plan, ctx);
    crate::stubs::CLOCK_TICK_PER_GET.with(|c| c.set(0));
    if plan.prop == "C16" {
        // in the C16 plan family every oracle failure or panic is a scratch-slot / bounds symptom
        let extra: Vec<crate::core::Violation> = ctx
            .violations
            .iter()
            .filter(|v| v.prop != "C16")
            .map(|v| crate::core::Violation {
                prop: "C16".into(),
                oracle: "scratch_or_bounds".into(),
                comp: format!("{}:{}", v.comp, v.oracle),
                detail: v.detail.clone(),
                op_index: v.op_index,
            })
            .collect();
        let mut seen = std::collections::BTreeSet::new();
        for v in extra {
            if seen.insert(v.sig()) {
                ctx.violations.push(v);
            }
        }
    }
}

fn execute_world(plan: &Plan, ctx: &mut Ctx) {
    match plan.world.as_str() {
        "node" => crate::node_oracles::execute(plan, ctx),
        "device" => crate::dev_oracles::execute(plan, ctx),
        "comb" => crate::comb::execute(plan, ctx),
        "datum" => crate::datumop::execute(plan, ctx),
        "settable" => crate::settable::execute(plan, ctx),
        "refs" => crate::refs::execute(plan, ctx),
        "api" => crate::api::execute(plan, ctx),
        "word" => crate::words::execute(plan, ctx),
        other => ctx.violate("HARNESS", "unknown_world", other, format!("unknown world {:?}", other)),
    }
}

pub fn simplify(plan: &Plan) -> Vec<Plan> {
    match plan.world.as_str() {
        "node" => crate::node_gen::simplify(plan),
        "device" => crate::dev_gen::simplify(plan),
        "comb" => crate::comb::simplify(plan),
        "settable" => crate::settable::simplify(plan),
        _ => Vec::new(),
    }
}

/// C02: combinator trees over f32 / Quantity / bool leaves, and (every sixteenth run) one arithmetic
/// combinator over a payload whose operators do not commute.
fn gen_c02(prop: &str, tier: crate::core::Tier, rng: &mut crate::rng::Rng, seed: u64, run: u64) -> Plan {
    let e = crate::comb::enum_end();
    if run >= e && run % 16 == 15 {
        return crate::words::generate(prop, tier, rng, seed, run, (run - e) / 16);
    }
    crate::comb::generate(prop, tier, rng, seed, run)
}

/// C03 rides on three worlds: combinator DAGs, device graphs and the operator layer.
fn gen_c03(prop: &str, tier: crate::core::Tier, rng: &mut crate::rng::Rng, seed: u64, run: u64) -> Plan {
    match run % 4 {
        0 | 1 => crate::comb::generate(prop, tier, rng, seed, run),
        2 => crate::dev_gen::generate(prop, tier, rng, seed, run / 4),
        _ => crate::datumop::generate(prop, tier, rng, seed, run / 4),
    }
}

fn gen_c16(prop: &str, tier: crate::core::Tier, rng: &mut crate::rng::Rng, seed: u64, run: u64) -> Plan {
    match run % 4 {
        0 | 1 | 2 => crate::comb::gen_c16(prop, tier, rng, seed, run / 4 * 3 + run % 4),
        _ => crate::dev_gen::gen_c16(prop, tier, rng, seed, run / 4),
    }
}

/// C19: the same plans are executed by simulators linked against rrtk in six feature
/// configurations. "C19" plans are well-dimensioned by construction and span the worlds;
/// "C19ill" plans deliver quantities in wrong / changing units (run only where checking is off).
fn gen_c19(prop: &str, tier: crate::core::Tier, rng: &mut crate::rng::Rng, seed: u64, run: u64) -> Plan {
    if prop == "C19ill" {
        return match run % 4 {
            3 => crate::api::generate(prop, tier, rng, seed, run),
            0 => {
                let kinds = ["a2s", "v2s", "p2s"];
                crate::node_gen::gen_node(prop, kinds[(run / 3 % 3) as usize], 1, tier, rng, seed, run)
            }
            1 => {
                let kinds = ["integral", "derivative", "ewma_q", "ma_q", "q2f"];
                crate::node_gen::gen_node(prop, kinds[(run / 3 % 5) as usize], 1, tier, rng, seed, run)
            }
            _ => crate::comb::generate(prop, tier, rng, seed, run),
        };
    }
    if run % 5 == 4 {
        return crate::api::generate(prop, tier, rng, seed, run);
    }
    match run % 8 {
        0 => crate::node_gen::gen_node(prop, crate::node_gen::C05_KINDS[(run / 8 % 14) as usize], 1, tier, rng, seed, run),
        1 => crate::node_gen::gen_node(prop, crate::node_gen::C05_KINDS[(run / 8 % 14) as usize], 2, tier, rng, seed, run),
        2 => crate::node_gen::gen_node(prop, crate::node_gen::C05_KINDS[(run / 8 % 14) as usize], 0, tier, rng, seed, run),
        3 => crate::comb::generate(prop, tier, rng, seed, run),
        4 => crate::dev_gen::gen_c08(prop, tier, rng, seed, run / 8),
        5 => crate::dev_gen::gen_c13(prop, tier, rng, seed, run / 8),
        6 => crate::dev_gen::gen_c20(prop, tier, rng, seed, run / 8),
        _ => crate::settable::generate(prop, tier, rng, seed, run),
    }
}
