//! Dispatch: which generator serves which property, which executor runs which world.

use crate::core::{Ctx, GenFn};
use crate::plan::Plan;

pub struct Spec {
    pub gen: GenFn,
    pub quick_runs: u64,
    pub thorough_runs: u64,
}

pub fn spec_for(prop: &str) -> Option<Spec> {
    Some(match prop {
        "C04" => Spec { gen: crate::node_gen::generate, quick_runs: 30_000, thorough_runs: 1_500_000 },
        "C05" => Spec { gen: crate::node_gen::generate, quick_runs: 70_000, thorough_runs: 2_800_000 },
        "C10" => Spec { gen: crate::node_gen::generate, quick_runs: 30_000, thorough_runs: 1_500_000 },
        "C11" => Spec { gen: crate::node_gen::generate, quick_runs: 30_000, thorough_runs: 1_500_000 },
        "C12" => Spec { gen: crate::node_gen::generate, quick_runs: 30_000, thorough_runs: 1_500_000 },
        "C08" => Spec { gen: crate::dev_gen::generate, quick_runs: 20_000, thorough_runs: 1_000_000 },
        "C09" => Spec { gen: crate::dev_gen::generate, quick_runs: 20_000, thorough_runs: 1_000_000 },
        "C13" => Spec { gen: crate::dev_gen::generate, quick_runs: 20_000, thorough_runs: 1_000_000 },
        "C20" => Spec { gen: crate::dev_gen::generate, quick_runs: 20_000, thorough_runs: 1_000_000 },
        "C02" => Spec { gen: crate::comb::generate, quick_runs: 40_000, thorough_runs: 2_000_000 },
        "C03" => Spec { gen: gen_c03, quick_runs: 40_000, thorough_runs: 2_000_000 },
        "C15" => Spec { gen: crate::settable::generate, quick_runs: 30_000, thorough_runs: 1_500_000 },
        "C17" => Spec { gen: crate::refs::generate, quick_runs: 20_000, thorough_runs: 1_000_000 },
        _ => return None,
    })
}

pub fn execute(plan: &Plan, ctx: &mut Ctx) {
    match plan.world.as_str() {
        "node" => crate::node_oracles::execute(plan, ctx),
        "device" => crate::dev_oracles::execute(plan, ctx),
        "comb" => crate::comb::execute(plan, ctx),
        "datum" => crate::datumop::execute(plan, ctx),
        "settable" => crate::settable::execute(plan, ctx),
        "refs" => crate::refs::execute(plan, ctx),
        other => ctx.violate("HARNESS", "unknown_world", other, format!("unknown world {:?}", other)),
    }
}

pub fn simplify(plan: &Plan) -> Vec<Plan> {
    match plan.world.as_str() {
        "node" => crate::node_gen::simplify(plan),
        "device" => crate::dev_gen::simplify(plan),
        "comb" => crate::comb::simplify(plan),
        "settable" => crate::settable::simplify(plan),
        _ => Vec::new(),
    }
}

/// C03 rides on three worlds: combinator DAGs, device graphs and the operator layer.
fn gen_c03(prop: &str, tier: crate::core::Tier, rng: &mut crate::rng::Rng, seed: u64, run: u64) -> Plan {
    match run % 4 {
        0 | 1 => crate::comb::generate(prop, tier, rng, seed, run),
        2 => crate::dev_gen::generate(prop, tier, rng, seed, run / 4),
        _ => crate::datumop::generate(prop, tier, rng, seed, run / 4),
    }
}
