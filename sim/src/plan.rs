//! A *plan* is the complete, PRNG-free description of one simulated execution:
//! a header of key=value knobs and a flat list of ops whose arguments are integers
//! (floats are stored as bit patterns). Execution is a pure function of the plan and
//! the code under test. The replay file is the plan in this text format plus the
//! violation signature it must reproduce.

use std::collections::BTreeMap;
use std::fmt::Write as _;

#[derive(Clone, Debug, PartialEq, Eq)]
pub struct Op {
    pub code: String,
    pub a: Vec<i64>,
}

impl Op {
    pub fn new(code: &str, a: &[i64]) -> Self {
        Op {
            code: code.to_string(),
            a: a.to_vec(),
        }
    }
    pub fn arg(&self, i: usize) -> i64 {
        self.a.get(i).copied().unwrap_or(0)
    }
    pub fn f(&self, i: usize) -> f32 {
        f32::from_bits(self.arg(i) as u32)
    }
}

#[derive(Clone, Debug, PartialEq, Eq)]
pub struct Plan {
    pub world: String,
    pub prop: String,
    pub seed: u64,
    pub run: u64,
    pub h: BTreeMap<String, i64>,
    pub hs: BTreeMap<String, String>,
    pub ops: Vec<Op>,
    /// signatures this plan is expected to reproduce (replay files only)
    pub expect: Vec<String>,
}

impl Plan {
    pub fn new(world: &str, prop: &str, seed: u64, run: u64) -> Self {
        Plan {
            world: world.to_string(),
            prop: prop.to_string(),
            seed,
            run,
            h: BTreeMap::new(),
            hs: BTreeMap::new(),
            ops: Vec::new(),
            expect: Vec::new(),
        }
    }
    pub fn set(&mut self, k: &str, v: i64) {
        self.h.insert(k.to_string(), v);
    }
    pub fn setf(&mut self, k: &str, v: f32) {
        self.h.insert(k.to_string(), v.to_bits() as i64);
    }
    pub fn sets(&mut self, k: &str, v: &str) {
        self.hs.insert(k.to_string(), v.to_string());
    }
    pub fn get(&self, k: &str) -> i64 {
        self.h.get(k).copied().unwrap_or(0)
    }
    pub fn getf(&self, k: &str) -> f32 {
        f32::from_bits(self.get(k) as u32)
    }
    pub fn gets(&self, k: &str) -> &str {
        self.hs.get(k).map(|s| s.as_str()).unwrap_or("")
    }
    pub fn push(&mut self, code: &str, a: &[i64]) {
        self.ops.push(Op::new(code, a));
    }

    pub fn to_text(&self) -> String {
        let mut s = String::new();
        let _ = writeln!(s, "# rrtk-sim plan v1");
        let _ = writeln!(s, "world={}", self.world);
        let _ = writeln!(s, "prop={}", self.prop);
        let _ = writeln!(s, "seed={}", self.seed);
        let _ = writeln!(s, "run={}", self.run);
        for (k, v) in &self.h {
            let _ = writeln!(s, "h.{}={}", k, v);
        }
        for (k, v) in &self.hs {
            let _ = writeln!(s, "s.{}={}", k, v);
        }
        for op in &self.ops {
            let _ = write!(s, "op {}", op.code);
            for a in &op.a {
                let _ = write!(s, " {}", a);
            }
            let _ = writeln!(s);
        }
        for e in &self.expect {
            let _ = writeln!(s, "expect={}", e);
        }
        s
    }

    pub fn from_text(text: &str) -> Result<Plan, String> {
        let mut p = Plan::new("", "", 0, 0);
        for (ln, line) in text.lines().enumerate() {
            let line = line.trim();
            if line.is_empty() || line.starts_with('#') {
                continue;
            }
            if let Some(rest) = line.strip_prefix("op ") {
                let mut it = rest.split_whitespace();
                let code = it.next().ok_or(format!("line {}: empty op", ln + 1))?;
                let mut a = Vec::new();
                for t in it {
                    a.push(
                        t.parse::<i64>()
                            .map_err(|e| format!("line {}: bad arg {:?}: {}", ln + 1, t, e))?,
                    );
                }
                p.ops.push(Op {
                    code: code.to_string(),
                    a,
                });
                continue;
            }
            let (k, v) = line
                .split_once('=')
                .ok_or(format!("line {}: expected key=value", ln + 1))?;
            match k {
                "world" => p.world = v.to_string(),
                "prop" => p.prop = v.to_string(),
                "seed" => p.seed = v.parse().map_err(|_| format!("line {}: bad seed", ln + 1))?,
                "run" => p.run = v.parse().map_err(|_| format!("line {}: bad run", ln + 1))?,
                "expect" => p.expect.push(v.to_string()),
                _ => {
                    if let Some(hk) = k.strip_prefix("h.") {
                        p.h.insert(
                            hk.to_string(),
                            v.parse()
                                .map_err(|_| format!("line {}: bad header int", ln + 1))?,
                        );
                    } else if let Some(sk) = k.strip_prefix("s.") {
                        p.hs.insert(sk.to_string(), v.to_string());
                    } else {
                        return Err(format!("line {}: unknown key {:?}", ln + 1, k));
                    }
                }
            }
        }
        if p.world.is_empty() {
            return Err("no world= line".into());
        }
        Ok(p)
    }
}

pub fn fb(x: f32) -> i64 {
    x.to_bits() as i64
}
