//! W-device executor and oracles: terminal matching / read model (C09), per-update
//! projection (C08), command relay and bounded progress (C13), wrappers (C20), and the
//! timestamp rules riding on all of them (C03).

use crate::approx::{self, Approx};
use crate::core::{guarded, Ctx};
use crate::dev_arena::*;
use crate::plan::Plan;
use crate::stubs::*;
use crate::vals::*;
use rrtk::streams::control::CommandPID;
use rrtk::*;
use std::cell::RefCell;
use std::collections::BTreeMap;

fn ex(b: u32) -> Approx {
    Approx::exact(f32::from_bits(b))
}

fn close(a: &Approx, got: u32) -> bool {
    let g = f32::from_bits(got);
    // not-a-number and infinite expectations are exact: the same operation on the same operands
    if a.v.is_nan() {
        return g.is_nan();
    }
    if a.v.is_infinite() {
        return g as f64 == a.v;
    }
    if !a.usable() {
        return true;
    }
    a.admits(g) || (a.v == 0.0 && g == 0.0)
}

#[derive(Clone, Copy)]
struct TM {
    own_s: Option<(i64, [u32; 3])>,
    own_c: Option<(i64, u8, u32)>,
    partner: Option<usize>,
}

struct PidTwin {
    sensor: SensorHandle<State>,
    pid: CommandPID<dyn Getter<State, E>, E>,
    cur_state: [u32; 3],
    cur_cmd: (u8, u32),
}

fn viol2(ctx: &mut Ctx, props: &[&str], oracle: &str, comp: &str, detail: String) {
    for p in props {
        ctx.violate(p, oracle, comp, detail.clone());
    }
}

fn show_s(s: &Option<(i64, [u32; 3])>) -> String {
    match s {
        None => "none".into(),
        Some((t, b)) => format!(
            "(t={},{:?},{:?},{:?})",
            t,
            f32::from_bits(b[0]),
            f32::from_bits(b[1]),
            f32::from_bits(b[2])
        ),
    }
}
fn show_c(c: &Option<(i64, u8, u32)>) -> String {
    match c {
        None => "none".into(),
        Some((t, k, b)) => format!("(t={},kind={},{:?})", t, k, f32::from_bits(*b)),
    }
}

fn rd_state(o: &Out) -> Option<(i64, [u32; 3])> {
    match o {
        Out::Some(t, Val::S(s)) => Some((*t, *s)),
        _ => None,
    }
}
fn rd_cmd(o: &Out) -> Option<(i64, u8, u32)> {
    match o {
        Out::Some(t, Val::C(k, b)) => Some((*t, *k, *b)),
        _ => None,
    }
}

/// A command value as an f32 chain of relays can carry it: beyond the f32 range it is +-inf (and stays so).
fn f32_range(x: f64) -> f64 {
    if x.abs() > f32::MAX as f64 {
        x.signum() * f64::INFINITY
    } else {
        x
    }
}
/// absolute slack (a few subnormal steps)
const SUBNORMAL_SLACK: f64 = 1e-44;

/// side-to-side command/state factor for a one-degree-of-freedom device
fn relay_factor(spec: &DevSpec, from: usize, to: usize) -> Option<f64> {
    if from == to {
        return Some(1.0);
    }
    match spec {
        DevSpec::Invert => Some(-1.0),
        DevSpec::Gear(_) | DevSpec::GearTeeth(_) => {
            let r = spec.gear_ratio().unwrap() as f64;
            if from == 0 {
                Some(r)
            } else {
                Some(1.0 / r)
            }
        }
        DevSpec::Axle(_) => Some(1.0),
        _ => None,
    }
}

pub fn execute(plan: &Plan, ctx: &mut Ctx) {
    let specs = parse_specs(plan);
    if specs.is_empty() {
        return;
    }
    let n_free: usize = specs
        .iter()
        .map(|s| match s {
            DevSpec::Ext => 1,
            DevSpec::Pad(n) => *n,
            _ => 0,
        })
        .sum();
    let exts: Vec<RefCell<Terminal<E>>> = (0..n_free).map(|_| Terminal::new()).collect();
    let built = guarded(|| specs.iter().map(|s| Box::new(build_dev(s, plan))).collect::<Vec<_>>());
    let mut devs = match built {
        Ok(d) => d,
        Err(p) => {
            ctx.violate(&plan.prop, "panic", "constructor", format!("device construction panicked: {:?} at {}", p.msg, p.short_loc()));
            return;
        }
    };
    let mut terms: Vec<TermRef> = Vec::new();
    let mut owner: Vec<(usize, usize)> = Vec::new();
    let mut dev_terms: Vec<Vec<usize>> = vec![Vec::new(); specs.len()];
    let mut ext_i = 0;
    for (di, spec) in specs.iter().enumerate() {
        match spec {
            DevSpec::Ext | DevSpec::Pad(_) => {
                for k in 0..spec.n_terms() {
                    dev_terms[di].push(terms.len());
                    terms.push(&exts[ext_i]);
                    owner.push((di, k));
                    ext_i += 1;
                }
            }
            _ => {
                for (k, t) in devs[di].terminals().into_iter().enumerate() {
                    dev_terms[di].push(terms.len());
                    terms.push(t);
                    owner.push((di, k));
                }
            }
        }
    }
    let nt = terms.len();
    for (di, dev) in devs.iter().enumerate() {
        if let Some(fb) = dev.feedback() {
            fb.term.set(Some(terms[dev_terms[di][0]]));
        }
    }
    if plan.prop == "C16" {
        for spec in &specs {
            if let DevSpec::Axle(n) = spec {
                ctx.cell("C16.axle", &[*n as i64]);
                ctx.count("reach.axle_constructed");
            }
        }
    }
    let mut model: Vec<TM> = vec![TM { own_s: None, own_c: None, partner: None }; nt];
    let mut snaps: Vec<TSnap> = terms.iter().map(|t| snap_term(t)).collect();
    // scripted getters that device terminals follow (op TF): pulled by the owning device's update
    let followed: Vec<SensorHandle<Datum<State>>> = (0..nt).map(|_| SensorHandle::new()).collect();
    let mut is_following = vec![false; nt];
    let mut fol: Vec<Option<(i64, [u32; 3])>> = vec![None; nt];
    // ... and scripted getters of COMMANDS that device terminals follow (op TFC)
    let followed_c: Vec<SensorHandle<Datum<Command>>> = (0..nt).map(|_| SensorHandle::new()).collect();
    let mut is_following_c = vec![false; nt];
    let mut folc: Vec<Option<(i64, u8, u32)>> = vec![None; nt];
    let mut cmd_followers_active = false;
    let mut twins: BTreeMap<usize, PidTwin> = BTreeMap::new();
    for (di, spec) in specs.iter().enumerate() {
        if let DevSpec::Pid(k, b) = spec {
            let sensor = SensorHandle::<State>::new();
            let pid = CommandPID::new(
                dyn_getter::<State, _>(sensor.sensor()),
                cmd_from(*k, *b),
                crate::node_rig::kvals_from(plan),
            );
            twins.insert(
                di,
                PidTwin {
                    sensor,
                    pid,
                    cur_state: [
                        plan.getf("pid_s0p").to_bits(),
                        plan.getf("pid_s0v").to_bits(),
                        plan.getf("pid_s0a").to_bits(),
                    ],
                    cur_cmd: (*k, *b),
                },
            );
        }
    }
    // bounded-progress tracking (C13)
    let mut newest: Option<(i64, u8)> = None;
    let mut knows: BTreeMap<usize, (f64, u32)> = BTreeMap::new();
    let mut max_cmd_time: Option<i64> = None;
    let mut tmin: Option<i64> = None;
    let mut tmax: Option<i64> = None;
    let mut matching_sig: u64;

    for (i, op) in plan.ops.iter().enumerate() {
        ctx.cur_op = i;
        let code = op.code.as_str();
        let pre = snaps.clone();
        let a0 = op.arg(0) as usize;
        // validity of indices (after minimisation some ops may dangle)
        let valid = match code {
            "C" => a0 < nt && (op.arg(1) as usize) < nt && a0 != op.arg(1) as usize,
            "D" | "DB" | "SS" | "SC" | "TF" | "TFN" | "TFC" | "TFCN" => a0 < nt,
            "CB" => a0 < nt && (op.arg(1) as usize) < nt && a0 != op.arg(1) as usize && (op.arg(2) as usize) < nt,
            "UD" | "FB" | "MREJ" | "MUERR" | "ENC" | "ENCN" | "ENCE" | "ENCUERR" | "ENCP" => a0 < specs.len(),
            _ => true,
        };
        if !valid {
            continue;
        }
        // cell coverage for C09: (matching before, op)
        matching_sig = 0;
        for (k, m) in model.iter().enumerate() {
            matching_sig = matching_sig.wrapping_mul(31).wrapping_add(match m.partner {
                Some(p) => p as u64 + 1,
                None => 0,
            });
            let _ = k;
        }
        if (code == "C" || code == "D") && specs.iter().all(|s| matches!(s, DevSpec::Ext)) {
            // (matching, operation) coverage is counted on pure terminal sets only
            ctx.cell("C09", &[nt as i64, matching_sig as i64, op_code_num(code), op.arg(0), op.arg(1)]);
        }
        // ---- link operations attempted while somebody holds a shared borrow of a terminal they must
        // write (DB k: disconnect k while its partner is being read; CB a b h: connect(a, b) while h is
        // being read). RefCell refuses the write with a panic; what the property demands is that the
        // links still form a symmetric matching afterwards - one of the states a link operation passes
        // through between whole steps, never half a link.
        if code == "DB" || code == "CB" {
            let (held_ix, involved): (Option<usize>, Vec<usize>) = if code == "DB" {
                (model[a0].partner.filter(|&p| p != a0), vec![a0])
            } else {
                (Some(op.arg(2) as usize), vec![a0, op.arg(1) as usize])
            };
            let r = {
                let _held = held_ix.map(|h| terms[h].borrow());
                guarded(|| {
                    if code == "DB" {
                        terms[a0].borrow_mut().disconnect();
                    } else {
                        connect(terms[a0], terms[op.arg(1) as usize]);
                    }
                })
            };
            // candidate matchings: the old one, the old one minus the links of the involved terminals (in
            // any combination), the completed operation
            let unlink = |m: &mut Vec<TM>, x: usize| {
                if let Some(p) = m[x].partner {
                    m[p].partner = None;
                    m[x].partner = None;
                }
            };
            let mut done = model.clone();
            for &x in &involved {
                unlink(&mut done, x);
            }
            if code == "CB" {
                done[involved[0]].partner = Some(involved[1]);
                done[involved[1]].partner = Some(involved[0]);
            }
            let mut cands: Vec<Vec<TM>> = Vec::new();
            if r.is_ok() {
                cands.push(done);
            } else {
                ctx.count("fault.link_op_refused_by_live_borrow");
                ctx.count("reach.link_op_refused_by_live_borrow");
                cands.push(model.clone());
                for mask in 1..(1u32 << involved.len()) {
                    let mut m = model.clone();
                    for (j, &x) in involved.iter().enumerate() {
                        if mask & (1 << j) != 0 {
                            unlink(&mut m, x);
                        }
                    }
                    cands.push(m);
                }
                cands.push(done);
            }
            let s2: Vec<TSnap> = terms.iter().map(|t| snap_term(t)).collect();
            let mut fits = false;
            for m in &cands {
                let before = ctx.violations.len();
                for k in 0..nt {
                    check_terminal_reads(ctx, i, code, k, m, &s2);
                }
                let clean = ctx.violations.len() == before;
                ctx.violations.truncate(before);
                if clean {
                    fits = true;
                    break;
                }
            }
            if !fits {
                let reads: Vec<String> = s2.iter().enumerate().map(|(k, s)| format!("t{}: own {} reads {}", k, show_s(&s.own_s), s.rd_s.show())).collect();
                viol2(ctx, &["C09"], "half_link_after_refused_op", if code == "DB" { "disconnect" } else { "connect" }, format!("op {} ({} {:?}): after the refused call the reads fit no symmetric matching the call passes through ({})", i, code, op.a, reads.join("; ")));
            }
            // back to a known matching: unlink everything the call could have touched, from both ends
            let mut touched: Vec<usize> = involved.clone();
            for &x in &involved {
                if let Some(p) = model[x].partner {
                    touched.push(p);
                }
            }
            for &x in &touched {
                if guarded(|| terms[x].borrow_mut().disconnect()).is_err() {
                    viol2(ctx, &["C09"], "panic", "disconnect", format!("op {} ({}): disconnect({}) after the refused call panicked", i, code, x));
                    return;
                }
            }
            for &x in &involved {
                unlink(&mut model, x);
            }
            if code == "CB" && r.is_ok() {
                // (completed: and then undone by the clean-up above)
            }
            knows.clear();
            newest = None;
        }
        let mut motor_before: Option<usize> = None;
        if code == "UD" {
            match &*devs[a0] {
                Dev::Act(_, h) | Dev::Pid(_, h) => motor_before = Some(h.log.borrow().len()),
                _ => {}
            }
        }
        let fb_wrote_before = if code == "UD" { devs[a0].feedback().map(|f| f.wrote.get()) } else { None };
        let mut enc_updates_before = 0;
        let mut enc_had_pending = false;
        if code == "UD" {
            if let Dev::Enc(_, h) = &*devs[a0] {
                enc_updates_before = h.updates.get();
                enc_had_pending = h.pending.borrow().is_some();
            }
        }
        // ---- apply
        let r = guarded(|| -> Option<Option<Er>> {
            match code {
                "C" => {
                    connect(terms[a0], terms[op.arg(1) as usize]);
                    None
                }
                "D" => {
                    terms[a0].borrow_mut().disconnect();
                    None
                }
                "SS" => Some(norm_unit(&set_state(
                    terms[a0],
                    op.arg(1),
                    [op.arg(2) as u32, op.arg(3) as u32, op.arg(4) as u32],
                ))),
                "SC" => Some(norm_unit(&set_cmd(terms[a0], op.arg(1), op.arg(2) as u8, op.arg(3) as u32))),
                // TF k t p v a: terminal k follows a getter that now holds this state; TFN k: it holds nothing
                "TF" | "TFN" => {
                    if !is_following[a0] {
                        <Terminal<'_, E> as Settable<Datum<State>, E>>::follow(
                            &mut terms[a0].borrow_mut(),
                            dyn_getter::<Datum<State>, _>(followed[a0].sensor()),
                        );
                        is_following[a0] = true;
                    }
                    if code == "TF" {
                        let st = State::new_raw(op.f(2), op.f(3), op.f(4));
                        followed[a0].set(Ok(Some(Datum::new(Time(op.arg(1)), Datum::new(Time(op.arg(1)), st)))));
                        fol[a0] = Some((op.arg(1), [fbits(op.f(2)), fbits(op.f(3)), fbits(op.f(4))]));
                    } else {
                        followed[a0].set(Ok(None));
                        fol[a0] = None;
                    }
                    None
                }
                // TFC k t kind bits: terminal k follows a getter that now holds this command; TFCN k: nothing
                "TFC" | "TFCN" => {
                    if !is_following_c[a0] {
                        <Terminal<'_, E> as Settable<Datum<Command>, E>>::follow(
                            &mut terms[a0].borrow_mut(),
                            dyn_getter::<Datum<Command>, _>(followed_c[a0].sensor()),
                        );
                        is_following_c[a0] = true;
                    }
                    if code == "TFC" {
                        let c = cmd_from(op.arg(2) as u8, op.arg(3) as u32);
                        followed_c[a0].set(Ok(Some(Datum::new(Time(op.arg(1)), Datum::new(Time(op.arg(1)), c)))));
                        folc[a0] = Some((op.arg(1), op.arg(2) as u8, op.arg(3) as u32));
                    } else {
                        followed_c[a0].set(Ok(None));
                        folc[a0] = None;
                    }
                    None
                }
                "UD" => Some(norm_unit(&devs[a0].update())),
                // FB d mode t p v a: from now on the inner object of wrapper d talks to the wrapper's own
                // terminal from inside the calls the wrapper makes on it (see dev_arena::Feedback)
                "FB" => {
                    if let Some(fb) = devs[a0].feedback() {
                        fb.mode.set(op.arg(1) as u8);
                        fb.datum.set((op.arg(2), [op.arg(3) as u32, op.arg(4) as u32, op.arg(5) as u32]));
                    }
                    None
                }
                "MREJ" => {
                    if let Dev::Act(_, h) | Dev::Pid(_, h) = &*devs[a0] {
                        h.reject.set(if op.arg(1) == 0 { None } else { Some(op.arg(1) as u8) });
                    }
                    None
                }
                "MUERR" => {
                    if let Dev::Act(_, h) | Dev::Pid(_, h) = &*devs[a0] {
                        h.update_err.set(if op.arg(1) == 0 { None } else { Some(op.arg(1) as u8) });
                    }
                    None
                }
                "ENC" => {
                    if let Dev::Enc(_, h) = &*devs[a0] {
                        *h.cur.borrow_mut() = Ok(Some(Datum::new(
                            Time(op.arg(1)),
                            State::new_raw(op.f(2), op.f(3), op.f(4)),
                        )));
                    }
                    None
                }
                "ENCP" => {
                    // the reading becomes current inside the inner getter's next update()
                    if let Dev::Enc(_, h) = &*devs[a0] {
                        *h.pending.borrow_mut() = Some(Ok(Some(Datum::new(
                            Time(op.arg(1)),
                            State::new_raw(op.f(2), op.f(3), op.f(4)),
                        ))));
                    }
                    None
                }
                "ENCN" => {
                    if let Dev::Enc(_, h) = &*devs[a0] {
                        *h.cur.borrow_mut() = Ok(None);
                    }
                    None
                }
                "ENCE" => {
                    if let Dev::Enc(_, h) = &*devs[a0] {
                        *h.cur.borrow_mut() = Err(err_of(op.arg(1) as u8));
                    }
                    None
                }
                "ENCUERR" => {
                    if let Dev::Enc(_, h) = &*devs[a0] {
                        h.update_err.set(if op.arg(1) == 0 { None } else { Some(op.arg(1) as u8) });
                    }
                    None
                }
                _ => None,
            }
        });
        let ret = match r {
            Ok(ret) => ret,
            Err(p) => {
                let (props, comp): (Vec<&str>, &str) = match code {
                    "C" => (vec!["C09"], "connect"),
                    "D" => (vec!["C09"], "disconnect"),
                    "UD" => (vec![plan.prop.as_str()], "device_update"),
                    _ => (vec![plan.prop.as_str()], "set"),
                };
                viol2(ctx, &props, "panic", comp, format!("op {} ({} {:?}): panic {:?} at {}", i, code, op.a, p.msg, p.short_loc()));
                ctx.trace(&format!("{} {} panic", i, code));
                return;
            }
        };
        // ---- model effects of harness ops
        match code {
            "C" => {
                let (a, b) = (a0, op.arg(1) as usize);
                let had = model[a].partner.is_some() || model[b].partner.is_some();
                if model[a].partner == Some(b) {
                    ctx.count("reach.reconnect_same_pair");
                } else if model[a].partner.is_some() && model[b].partner.is_some() {
                    ctx.count("reach.connect_steals_both");
                } else if had {
                    ctx.count("reach.connect_steals_one");
                }
                ctx.count("fault.relink");
                for x in [a, b] {
                    if let Some(p) = model[x].partner {
                        model[p].partner = None;
                        model[x].partner = None;
                    }
                }
                model[a].partner = Some(b);
                model[b].partner = Some(a);
                knows.clear();
                newest = None;
                ctx.nontrivial = true;
            }
            "D" => {
                ctx.count("fault.unlink");
                match model[a0].partner {
                    Some(p) => {
                        model[p].partner = None;
                        model[a0].partner = None;
                    }
                    None => ctx.count("reach.disconnect_unlinked"),
                }
                knows.clear();
                newest = None;
            }
            "SS" => {
                model[a0].own_s = Some((op.arg(1), [op.arg(2) as u32, op.arg(3) as u32, op.arg(4) as u32]));
                ctx.count("n.state_set");
            }
            "TFC" | "TFCN" => {
                // a followed command overwrites the terminal's own slot at every update of its device,
                // newer or not: "the newest command issued" is no longer a property of the set ops alone,
                // so the bounded-progress bookkeeping stands down for the rest of the run
                cmd_followers_active = true;
                knows.clear();
                newest = None;
                ctx.count("fault.command_follower");
            }
            "SC" => {
                let t = op.arg(1);
                model[a0].own_c = Some((t, op.arg(2) as u8, op.arg(3) as u32));
                ctx.count("n.command_set");
                let is_newest = max_cmd_time.map(|m| t > m).unwrap_or(true) && !cmd_followers_active;
                if is_newest {
                    max_cmd_time = Some(t);
                    newest = Some((t, op.arg(2) as u8));
                    knows.clear();
                    let v = f32::from_bits(op.arg(3) as u32) as f64;
                    knows.insert(a0, (v, 0));
                    if let Some(p) = model[a0].partner {
                        knows.insert(p, (v, 0));
                    }
                } else {
                    ctx.count("fault.stale");
                    knows.clear();
                    newest = None;
                }
            }
            _ => {}
        }
        // a write needs only the written terminal: the same write once more while the caller holds the
        // partner's MUTABLE guard (it is about to write that end too) must go through just the same
        if matches!(code, "SS" | "SC") {
            if let Some(p) = model[a0].partner.filter(|&p| p != a0) {
                let again = {
                    let _partner_guard = terms[p].borrow_mut();
                    guarded(|| {
                        if code == "SS" {
                            norm_unit(&set_state(terms[a0], op.arg(1), [op.arg(2) as u32, op.arg(3) as u32, op.arg(4) as u32]))
                        } else {
                            norm_unit(&set_cmd(terms[a0], op.arg(1), op.arg(2) as u8, op.arg(3) as u32))
                        }
                    })
                };
                ctx.count("reach.write_while_partner_mutably_borrowed");
                match again {
                    Ok(None) => {}
                    Ok(Some(e)) => viol2(ctx, &["C09"], "set_rejected", "terminal", format!("op {}: set on terminal {} while its partner is mutably borrowed returned {:?}", i, a0, e)),
                    Err(pn) => {
                        viol2(ctx, &["C09"], "panic", "write_while_partner_mutably_borrowed", format!("op {} ({}): writing terminal {} while the caller holds its partner's mutable guard panicked: {:?} at {}", i, code, a0, pn.msg, pn.short_loc()));
                        return;
                    }
                }
            }
        }
        if matches!(code, "SS" | "SC" | "ENC" | "ENCP" | "FB" | "TFC") {
            let t = if code == "FB" { op.arg(2) } else { op.arg(1) };
            tmin = Some(tmin.map_or(t, |m: i64| m.min(t)));
            tmax = Some(tmax.map_or(t, |m: i64| m.max(t)));
        }
        snaps = terms.iter().map(|t| snap_term(t)).collect();
        ctx.sig(op_code_num(code) as u64 * 131 + matching_sig % 1009);
        if ctx.record_trace || true {
            let mut line = format!("{} {} {:?} ret={:?}", i, code, op.a, ret);
            for (k, s) in snaps.iter().enumerate() {
                line.push_str(&format!(" | t{} s={} c={}", k, s.rd_s.show(), s.rd_c.show()));
            }
            ctx.trace(&line);
        }
        if let Some(Some(e)) = ret {
            if matches!(code, "SS" | "SC") {
                ctx.violate("C09", "set_rejected", "terminal", format!("op {}: set on a terminal returned {:?}", i, e));
            }
        }

        // ---- device-update oracles
        if code == "UD" {
            let d = a0;
            let spec = &specs[d];
            let ts = &dev_terms[d];
            ctx.count("n.device_update");
            // a terminal of this device that follows a getter is fed by the device's own update (it
            // updates its terminals first): what the device then reads there is the followed state.
            // Modelled for unlinked terminals; an update with a linked follower terminal is not judged.
            let mut pre = pre;
            let mut unmodelled = false;
            for &k in ts.iter() {
                if let Some(f) = folc[k] {
                    let partner = model[k].partner;
                    if !matches!(spec, DevSpec::Invert | DevSpec::Gear(_) | DevSpec::GearTeeth(_) | DevSpec::Axle(_) | DevSpec::Diff(_)) || partner.map_or(false, |p| ts.contains(&p)) {
                        unmodelled = true;
                    } else {
                        // the followed command lands in the own slot; what the device then READS at this
                        // terminal is the newer of that and the partner's own slot (a tie between different
                        // commands is outside the quantifier)
                        pre[k].own_c = Some(f);
                        let mut rd = f;
                        if let Some(c) = partner.and_then(|p| pre[p].own_c) {
                            if c.0 > f.0 {
                                rd = c;
                                ctx.count("reach.follower_terminal_reads_newer_partner_command");
                            } else if c.0 == f.0 && (c.1, c.2) != (f.1, f.2) {
                                unmodelled = true;
                            }
                        }
                        pre[k].rd_c = Out::Some(rd.0, Val::C(rd.1, rd.2));
                        ctx.count("reach.device_pulls_followed_command");
                    }
                }
            }
            // an encoder wrapper whose own terminal follows a state getter: the wrapper updates its terminal
            // (which pulls the followed state into the own slot) BEFORE it writes the reading, so a present
            // reading ends up in the slot and the followed state only when the encoder delivers nothing
            let mut enc_followed: Option<(i64, [u32; 3])> = None;
            for &k in ts.iter() {
                if let (Some(f), DevSpec::Enc) = (fol[k], spec) {
                    enc_followed = Some(f);
                    ctx.count("reach.encoder_terminal_follows_getter");
                    continue;
                }
                if let Some(f) = fol[k] {
                    if model[k].partner.is_some() || !matches!(spec, DevSpec::Invert | DevSpec::Gear(_) | DevSpec::GearTeeth(_) | DevSpec::Axle(_) | DevSpec::Diff(_)) {
                        unmodelled = true;
                    } else {
                        pre[k].own_s = Some(f);
                        pre[k].rd_s = Out::Some(f.0, Val::S(f.1));
                        ctx.count("reach.device_pulls_followed_terminal");
                    }
                }
            }
            // the inner object of a wrapper wrote a state into the wrapper's terminal during this update
            let fb_wrote: Option<(i64, [u32; 3])> = match (devs[d].feedback(), fb_wrote_before) {
                (Some(f), Some(b)) if f.wrote.get() > b => Some(f.datum.get()),
                _ => None,
            };
            if let Some(f) = devs[d].feedback() {
                if f.mode.get() == 1 && fb_wrote.is_some() {
                    ctx.count("reach.inner_writes_terminal_from_update");
                }
                if f.mode.get() == 2 {
                    ctx.count("reach.inner_reads_terminal_from_calls");
                }
            }
            let tie = if unmodelled {
                ctx.count("n.unmodelled_follower_update");
                false
            } else {
                check_update(ctx, plan, i, spec, ts, &pre, &snaps, ret, &devs[d], motor_before, enc_updates_before, enc_had_pending, twins.get_mut(&d), fb_wrote, enc_followed)
            };
            if tie {
                // different commands with equal stamps met at this device (a kinematic loop
                // with inconsistent ratios): outside the property's quantifier
                knows.clear();
                newest = None;
            }
            // frame: other terminals' own slots untouched
            for k in 0..nt {
                if !ts.contains(&k) && (snaps[k].own_s != pre[k].own_s || snaps[k].own_c != pre[k].own_c) {
                    viol2(ctx, &[&plan.prop], "frame", "device_update", format!("op {}: update of device {} changed the own slots of foreign terminal {}", i, d, k));
                }
            }
            // adopt own slots of the updated device's terminals
            for &k in ts {
                model[k].own_s = snaps[k].own_s;
                model[k].own_c = snaps[k].own_c;
            }
            // bounded progress bookkeeping
            if relay_factor(spec, 0, 0).is_some() && !matches!(spec, DevSpec::Axle(0)) {
                let known = ts.iter().enumerate().find_map(|(li, k)| knows.get(k).map(|v| (li, *v)));
                if let Some((lj, (val, hops))) = known {
                    for (lk, &k) in ts.iter().enumerate() {
                        if let Some(f) = relay_factor(spec, lj, lk) {
                            let nv = (f32_range(val * f), hops + 1);
                            let e = knows.entry(k).or_insert(nv);
                            let _ = e;
                            if let Some(p) = model[k].partner {
                                knows.entry(p).or_insert(nv);
                            }
                        }
                    }
                }
            }
        } else {
            // frame for harness ops: own slots are exactly what the model says
            for k in 0..nt {
                if snaps[k].own_s != model[k].own_s || snaps[k].own_c != model[k].own_c {
                    viol2(
                        ctx,
                        &["C09"],
                        "own_slot",
                        "terminal",
                        format!(
                            "op {} ({}): terminal {} own slots are state {} command {}, expected state {} command {}",
                            i, code, k, show_s(&snaps[k].own_s), show_c(&snaps[k].own_c), show_s(&model[k].own_s), show_c(&model[k].own_c)
                        ),
                    );
                    break;
                }
            }
        }

        // ---- terminal read model after every op (C09 / C03)
        for k in 0..nt {
            check_terminal_reads(ctx, i, code, k, &model, &snaps);
        }
        // ---- the same reads while a shared borrow of the partner is alive (reading both ends of a link
        // side by side is ordinary safe use): they must not panic and must return the same data
        for k in 0..nt {
            if let Some(p) = model[k].partner {
                if p == k {
                    continue;
                }
                let held = terms[p].borrow();
                let again = guarded(|| snap_term(terms[k]));
                drop(held);
                match again {
                    Ok(s2) => {
                        if s2.rd_s != snaps[k].rd_s || s2.rd_c != snaps[k].rd_c || s2.rd_td != snaps[k].rd_td {
                            viol2(ctx, &["C09"], "read_while_partner_borrowed", "terminal", format!("op {}: terminal {} reads differently while a shared borrow of its partner {} is alive", i, k, p));
                        }
                        ctx.count("reach.read_while_partner_borrowed");
                    }
                    Err(pn) => {
                        viol2(ctx, &["C09"], "panic", "read_while_partner_borrowed", format!("op {}: reading terminal {} while a shared borrow of its partner {} is alive panicked: {:?} at {}", i, k, p, pn.msg, pn.short_loc()));
                        break;
                    }
                }
            }
        }

        // ---- and by the holder of the terminal's own mutable guard (write, then read back through it)
        for k in 0..nt {
            match guarded(|| snap_term_via_mut(terms[k])) {
                Ok(s2) => {
                    if s2 != snaps[k] {
                        viol2(ctx, &["C09"], "read_through_own_mutable_guard", "terminal", format!("op {}: terminal {} reads differently through its own mutable guard", i, k));
                    }
                    ctx.count("reach.read_through_own_mutable_guard");
                }
                Err(pn) => {
                    viol2(ctx, &["C09"], "panic", "read_through_own_mutable_guard", format!("op {}: reading terminal {} through its own mutable guard panicked: {:?} at {}", i, k, pn.msg, pn.short_loc()));
                    break;
                }
            }
        }

        // ---- bounded progress (C13, over the recorded history)
        if let Some((tstar, kind)) = newest {
            for (&k, &(val, hops)) in &knows {
                if hops >= 2 {
                    ctx.count("reach.relayed_two_hops");
                }
                let ok = match rd_cmd(&snaps[k].rd_c) {
                    Some((t, kd, b)) => {
                        let g = f32::from_bits(b) as f64;
                        t == tstar && kd == kind && ((g - val).abs() <= 8.0 * (hops as f64 + 1.0) * 1.2e-7 * val.abs().max(g.abs()) + 2e-45 * 100f64.powi(hops as i32 + 1) || !val.is_finite() || !g.is_finite())
                    }
                    None => false,
                };
                if !ok {
                    viol2(
                        ctx,
                        &["C13"],
                        "bounded_progress",
                        "chain",
                        format!(
                            "op {}: the newest command (t={}, kind {}) should be readable at terminal {} as {:e} ({} hops from its issuer), but the terminal reads {}",
                            i, tstar, kind, k, val, hops, snaps[k].rd_c.show()
                        ),
                    );
                    knows.clear();
                    break;
                }
            }
        }
    }
    if let (Some(a), Some(b)) = (tmin, tmax) {
        ctx.sim_ns += (b as i128 - a as i128).max(0);
    }
}

fn op_code_num(code: &str) -> i64 {
    match code {
        "C" => 1,
        "D" => 2,
        "SS" => 3,
        "SC" => 4,
        "UD" => 5,
        "MREJ" => 6,
        "MUERR" => 7,
        "ENC" => 8,
        "ENCN" => 9,
        "ENCE" => 10,
        "ENCUERR" => 11,
        "ENCP" => 12,
        "DB" => 13,
        "CB" => 14,
        "FB" => 15,
        "TFC" => 16,
        "TFCN" => 17,
        _ => 0,
    }
}

fn check_terminal_reads(ctx: &mut Ctx, i: usize, code: &str, k: usize, model: &[TM], snaps: &[TSnap]) {
    let own_s = snaps[k].own_s;
    let own_c = snaps[k].own_c;
    let (p_s, p_c) = match model[k].partner {
        Some(p) => (snaps[p].own_s, snaps[p].own_c),
        None => (None, None),
    };
    // state read
    ctx.cell("C16.terminal", &[own_s.is_some() as i64, p_s.is_some() as i64, model[k].partner.is_some() as i64]);
    let got = rd_state(&snaps[k].rd_s);
    match (own_s, p_s) {
        (None, None) => {
            if snaps[k].rd_s != Out::None {
                viol2(ctx, &["C09"], "state_read", "terminal", format!("op {} ({}): terminal {} has no state on either side but reads {}", i, code, k, snaps[k].rd_s.show()));
            }
        }
        (Some(a), None) | (None, Some(a)) => {
            if got != Some(a) {
                viol2(ctx, &["C09"], "state_read", "terminal", format!("op {} ({}): terminal {} should read the only existing state {} but reads {}", i, code, k, show_s(&Some(a)), snaps[k].rd_s.show()));
            }
        }
        (Some(a), Some(b)) => match got {
            None => viol2(ctx, &["C09"], "state_read", "terminal", format!("op {} ({}): terminal {} reads {} although both sides hold states", i, code, k, snaps[k].rd_s.show())),
            Some((t, g)) => {
                let te = a.0.max(b.0);
                if t != te {
                    viol2(ctx, &["C03", "C09"], "state_read_time", "terminal", format!("op {} ({}): terminal {} averaged states stamped {} and {} but the result is stamped {}", i, code, k, a.0, b.0, t));
                }
                for c in 0..3 {
                    let m = ex(a.1[c]).add(ex(b.1[c])).half();
                    if !close(&m, g[c]) {
                        viol2(ctx, &["C09"], "state_read", "terminal", format!("op {} ({}): terminal {} component {}: mean of {:?} and {:?} expected, got {:?}", i, code, k, c, f32::from_bits(a.1[c]), f32::from_bits(b.1[c]), f32::from_bits(g[c])));
                        break;
                    }
                }
            }
        },
    }
    if let Some(p) = model[k].partner {
        if p > k && snaps[k].rd_s != snaps[p].rd_s {
            viol2(ctx, &["C09"], "partner_reads_agree", "terminal", format!("op {} ({}): connected terminals {} and {} read different states: {} vs {}", i, code, k, p, snaps[k].rd_s.show(), snaps[p].rd_s.show()));
        }
    }
    // command read: one of the candidates, none strictly newer
    let gotc = rd_cmd(&snaps[k].rd_c);
    match (own_c, p_c) {
        (None, None) => {
            if snaps[k].rd_c != Out::None {
                viol2(ctx, &["C09"], "command_read", "terminal", format!("op {} ({}): terminal {} has no command on either side but reads {}", i, code, k, snaps[k].rd_c.show()));
            }
        }
        _ => {
            let cands: Vec<(i64, u8, u32)> = [own_c, p_c].iter().flatten().copied().collect();
            match gotc {
                None => viol2(ctx, &["C09"], "command_read", "terminal", format!("op {} ({}): terminal {} reads {} although a command exists", i, code, k, snaps[k].rd_c.show())),
                Some(g) => {
                    if !cands.contains(&g) {
                        viol2(ctx, &["C03", "C09"], "command_read", "terminal", format!("op {} ({}): terminal {} reads command {} which is neither its own {} nor its partner's {}", i, code, k, show_c(&Some(g)), show_c(&own_c), show_c(&p_c)));
                    } else if cands.iter().any(|c| c.0 > g.0) {
                        viol2(ctx, &["C03", "C09"], "command_read_newest", "terminal", format!("op {} ({}): terminal {} reads command {} although a strictly newer one exists (own {}, partner {})", i, code, k, show_c(&Some(g)), show_c(&own_c), show_c(&p_c)));
                    }
                }
            }
        }
    }
    // combined read: composed from the two reads
    let exp_td = match (rd_state(&snaps[k].rd_s), rd_cmd(&snaps[k].rd_c)) {
        (None, None) => Out::None,
        (s, c) => {
            let t = match (s, c) {
                (Some((t, _)), _) => t,
                (None, Some((t, _, _))) => t,
                _ => 0,
            };
            Out::Some(t, Val::T(t, c.map(|(_, k, b)| (k, b)), s.map(|(_, b)| b)))
        }
    };
    if snaps[k].rd_td != exp_td {
        let time_only = matches!((&snaps[k].rd_td, &exp_td), (Out::Some(_, Val::T(_, c1, s1)), Out::Some(_, Val::T(_, c2, s2))) if c1 == c2 && s1 == s2);
        let props: &[&str] = if time_only { &["C03", "C09"] } else { &["C09"] };
        viol2(ctx, props, if time_only { "combined_read_time" } else { "combined_read" }, "terminal", format!("op {} ({}): terminal {} combined read {} but state read {} and command read {} imply {}", i, code, k, snaps[k].rd_td.show(), snaps[k].rd_s.show(), snaps[k].rd_c.show(), exp_td.show()));
    }
}

fn st(bits: [u32; 3]) -> [Approx; 3] {
    [ex(bits[0]), ex(bits[1]), ex(bits[2])]
}

/// expected own state slot: either unchanged, or a value with a time
enum ExpSlot {
    Unchanged,
    Val(i64, [Approx; 3]),
    Unchecked,
}

#[allow(clippy::too_many_arguments)]
fn check_update(
    ctx: &mut Ctx,
    plan: &Plan,
    i: usize,
    spec: &DevSpec,
    ts: &[usize],
    pre: &[TSnap],
    post: &[TSnap],
    ret: Option<Option<Er>>,
    dev: &Dev,
    motor_before: Option<usize>,
    enc_updates_before: u64,
    enc_had_pending: bool,
    twin: Option<&mut PidTwin>,
    fb_wrote: Option<(i64, [u32; 3])>,
    enc_followed: Option<(i64, [u32; 3])>,
) -> bool {
    let mut tie_seen = false;
    let reads: Vec<Option<(i64, [u32; 3])>> = ts.iter().map(|&k| rd_state(&pre[k].rd_s)).collect();
    let mut exp: Vec<ExpSlot> = ts.iter().map(|_| ExpSlot::Unchanged).collect();
    let comp = match spec {
        DevSpec::Invert => "invert",
        DevSpec::Gear(_) => "gear_train",
        DevSpec::GearTeeth(_) => "gear_train_teeth",
        DevSpec::Axle(_) => "axle",
        DevSpec::Diff(_) => "differential",
        DevSpec::Act => "actuator_wrapper",
        DevSpec::Enc => "encoder_wrapper",
        DevSpec::Pid(..) => "pid_wrapper",
        _ => "free_terminal",
    };
    let pattern: i64 = reads.iter().enumerate().map(|(j, r)| if r.is_some() { 1 << j } else { 0 }).sum();
    ctx.cell("C08", &[op_code_num("UD"), comp.len() as i64, ts.len() as i64, pattern, match spec { DevSpec::Diff(m) => *m as i64, _ => 0 }]);
    match spec {
        DevSpec::Invert => match (reads[0], reads[1]) {
            (Some(a), Some(b)) => {
                let t = a.0.max(b.0);
                let (x, y) = (st(a.1), st(b.1));
                let n: Vec<Approx> = (0..3).map(|c| x[c].sub(y[c]).half()).collect();
                exp[0] = ExpSlot::Val(t, [n[0], n[1], n[2]]);
                exp[1] = ExpSlot::Val(t, [n[0].neg(), n[1].neg(), n[2].neg()]);
                ctx.count("reach.both_sides_present");
            }
            (Some(a), None) => {
                let x = st(a.1);
                exp[1] = ExpSlot::Val(a.0, [x[0].neg(), x[1].neg(), x[2].neg()]);
                ctx.count("reach.one_sided");
            }
            (None, Some(b)) => {
                let y = st(b.1);
                exp[0] = ExpSlot::Val(b.0, [y[0].neg(), y[1].neg(), y[2].neg()]);
                ctx.count("reach.one_sided");
            }
            _ => {}
        },
        DevSpec::Gear(_) | DevSpec::GearTeeth(_) => {
            let r = Approx::exact(spec.gear_ratio().unwrap());
            match (reads[0], reads[1]) {
                (Some(a), Some(b)) => {
                    let t = a.0.max(b.0);
                    let (x, y) = (st(a.1), st(b.1));
                    let den = r.mul(r).add(Approx::exact(1.0));
                    let n1: Vec<Approx> = (0..3).map(|c| x[c].add(y[c].mul(r)).div(den)).collect();
                    let n2: Vec<Approx> = (0..3).map(|c| x[c].add(y[c].mul(r)).mul(r).div(den)).collect();
                    exp[0] = ExpSlot::Val(t, [n1[0], n1[1], n1[2]]);
                    exp[1] = ExpSlot::Val(t, [n2[0], n2[1], n2[2]]);
                    ctx.count("reach.both_sides_present");
                }
                (Some(a), None) => {
                    let x = st(a.1);
                    exp[1] = ExpSlot::Val(a.0, [x[0].mul(r), x[1].mul(r), x[2].mul(r)]);
                    ctx.count("reach.one_sided");
                    if matches!(spec, DevSpec::GearTeeth(_)) {
                        ctx.count("reach.teeth_ratio_observed");
                    }
                }
                (None, Some(b)) => {
                    let y = st(b.1);
                    exp[0] = ExpSlot::Val(b.0, [y[0].div(r), y[1].div(r), y[2].div(r)]);
                    ctx.count("reach.one_sided");
                    if matches!(spec, DevSpec::GearTeeth(_)) {
                        ctx.count("reach.teeth_ratio_observed");
                    }
                }
                _ => {}
            }
        }
        DevSpec::Axle(_) => {
            let present: Vec<(i64, [u32; 3])> = reads.iter().flatten().copied().collect();
            if !present.is_empty() {
                let t = present.iter().map(|p| p.0).max().unwrap();
                let cnt = Approx::exact(present.len() as f32);
                let mean: Vec<Approx> = (0..3)
                    .map(|c| approx::sum(&present.iter().map(|p| ex(p.1[c])).collect::<Vec<_>>()).div(cnt))
                    .collect();
                for e in exp.iter_mut() {
                    *e = ExpSlot::Val(t, [mean[0], mean[1], mean[2]]);
                }
                if present.len() < reads.len() {
                    ctx.count("reach.axle_partial_presence");
                }
            }
        }
        DevSpec::Diff(mode) => {
            let (s1, s2, sm) = (reads[0], reads[1], reads[2]);
            let m = if *mode >= 3 { 3 } else { *mode };
            match m {
                0 => {
                    if let (Some(sum), Some(b)) = (sm, s2) {
                        let (x, y) = (st(sum.1), st(b.1));
                        exp[0] = ExpSlot::Val(sum.0.max(b.0), [x[0].sub(y[0]), x[1].sub(y[1]), x[2].sub(y[2])]);
                    } else {
                        ctx.count("reach.diff_waits_for_data");
                    }
                    exp[1] = ExpSlot::Unchecked;
                    exp[2] = ExpSlot::Unchecked;
                }
                1 => {
                    if let (Some(sum), Some(a)) = (sm, s1) {
                        let (x, y) = (st(sum.1), st(a.1));
                        exp[1] = ExpSlot::Val(sum.0.max(a.0), [x[0].sub(y[0]), x[1].sub(y[1]), x[2].sub(y[2])]);
                    } else {
                        ctx.count("reach.diff_waits_for_data");
                    }
                    exp[0] = ExpSlot::Unchecked;
                    exp[2] = ExpSlot::Unchecked;
                }
                2 => {
                    if let (Some(a), Some(b)) = (s1, s2) {
                        let (x, y) = (st(a.1), st(b.1));
                        exp[2] = ExpSlot::Val(a.0.max(b.0), [x[0].add(y[0]), x[1].add(y[1]), x[2].add(y[2])]);
                    } else {
                        ctx.count("reach.diff_waits_for_data");
                    }
                    exp[0] = ExpSlot::Unchecked;
                    exp[1] = ExpSlot::Unchecked;
                }
                _ => {
                    if let (Some(a), Some(b), Some(sum)) = (s1, s2, sm) {
                        let t = a.0.max(b.0).max(sum.0);
                        let (x, y, z) = (st(a.1), st(b.1), st(sum.1));
                        let two = Approx::exact(2.0);
                        let three = Approx::exact(3.0);
                        let e0: Vec<Approx> = (0..3).map(|c| approx::sum(&[x[c].mul(two), y[c].neg(), z[c]]).div(three)).collect();
                        let e1: Vec<Approx> = (0..3).map(|c| approx::sum(&[x[c].neg(), y[c].mul(two), z[c]]).div(three)).collect();
                        let e2: Vec<Approx> = (0..3).map(|c| approx::sum(&[x[c], y[c], z[c].mul(two)]).div(three)).collect();
                        exp[0] = ExpSlot::Val(t, [e0[0], e0[1], e0[2]]);
                        exp[1] = ExpSlot::Val(t, [e1[0], e1[1], e1[2]]);
                        exp[2] = ExpSlot::Val(t, [e2[0], e2[1], e2[2]]);
                        ctx.count("reach.diff_equal_all_present");
                    } else {
                        ctx.count("reach.diff_waits_for_data");
                    }
                }
            }
            // "does nothing until every trusted branch has data": all own slots bit-identical
            let nothing = exp.iter().all(|e| !matches!(e, ExpSlot::Val(..)));
            if nothing {
                for e in exp.iter_mut() {
                    *e = ExpSlot::Unchanged;
                }
            }
        }
        _ => {}
    }
    // compare own state slots
    if matches!(spec, DevSpec::Invert | DevSpec::Gear(_) | DevSpec::GearTeeth(_) | DevSpec::Axle(_) | DevSpec::Diff(_)) {
        for (j, &k) in ts.iter().enumerate() {
            match &exp[j] {
                ExpSlot::Unchecked => {}
                ExpSlot::Unchanged => {
                    if post[k].own_s != pre[k].own_s {
                        viol2(ctx, &["C08"], "own_slot_untouched", comp, format!("op {}: terminal {} (local {}) own state changed from {} to {} although reads {:?} give the device nothing to write there", i, k, j, show_s(&pre[k].own_s), show_s(&post[k].own_s), reads.iter().map(|r| r.is_some()).collect::<Vec<_>>()));
                    }
                }
                ExpSlot::Val(t, v) => match post[k].own_s {
                    None => viol2(ctx, &["C08"], "projection", comp, format!("op {}: terminal {} (local {}) has no own state after the update", i, k, j)),
                    Some((gt, g)) => {
                        if gt != *t {
                            viol2(ctx, &["C03", "C08"], "projection_time", comp, format!("op {}: terminal {} (local {}) stamped {} but the newest contributing read is {}", i, k, j, gt, t));
                        }
                        let mut skipped = false;
                        for c in 0..3 {
                            if !v[c].well_conditioned(scale_of(&reads, c)) {
                                skipped = true;
                                continue;
                            }
                            ctx.count("n.value_compared");
                            if !close(&v[c], g[c]) {
                                viol2(ctx, &["C08"], "projection", comp, format!("op {}: terminal {} (local {}) component {}: projection of reads {} gives {:e}+-{:e}, device wrote {:e}", i, k, j, c, reads.iter().map(show_s).collect::<Vec<_>>().join(" "), v[c].v, v[c].e, f32::from_bits(g[c])));
                                break;
                            }
                        }
                        if skipped {
                            ctx.count("n.ill_conditioned_skipped");
                        }
                    }
                },
            }
        }
        if ret != Some(None) {
            viol2(ctx, &["C08"], "update_return", comp, format!("op {}: update returned {:?}", i, ret));
        }
    }

    // ---- command relay (C13)
    let creads: Vec<Option<(i64, u8, u32)>> = ts.iter().map(|&k| rd_cmd(&pre[k].rd_c)).collect();
    match spec {
        DevSpec::Invert | DevSpec::Gear(_) | DevSpec::GearTeeth(_) | DevSpec::Axle(_) => {
            // the newest readable command; among copies with the same stamp prefer one whose value is
            // finite (an overflowed copy is an image, not the source)
            let best = creads
                .iter()
                .enumerate()
                .filter_map(|(j, c)| c.map(|c| (j, c)))
                .max_by_key(|(_, c)| (c.0, f32::from_bits(c.2).is_finite()));
            match best {
                None => {
                    for &k in ts {
                        if post[k].own_c != pre[k].own_c {
                            viol2(ctx, &["C13"], "relay_without_command", comp, format!("op {}: terminal {} own command changed although no command was readable", i, k));
                        }
                    }
                }
                Some((j, (tstar, kind, bits))) => {
                    let v = f32::from_bits(bits) as f64;
                    // ties between different commands are outside the quantifier. Relayed copies of one
                    // command agree to a few ulp (5e-7); anything further apart at one stamp is a conflict
                    // (e.g. a kinematic loop whose ratios do not multiply to 1), and the relay tolerance
                    // (2e-6) leaves room for whichever agreeing copy the device picked.
                    let tie_conflict = creads.iter().enumerate().any(|(l, c)| match c {
                        Some((t, kd, b)) if *t == tstar && l != j => {
                            let f = relay_factor(spec, l, j).unwrap_or(1.0);
                            // copies agree when either is the image of the other (in f32 range terms)
                            let w = f32_range(f32::from_bits(*b) as f64 * f);
                            let u = f32::from_bits(*b) as f64;
                            let back = f32_range(v * relay_factor(spec, j, l).unwrap_or(1.0));
                            let close = |a: f64, c: f64| a == c || (a.is_finite() && c.is_finite() && (a - c).abs() <= 5e-7 * a.abs().max(c.abs()) + SUBNORMAL_SLACK);
                            *kd != kind || !(close(w, v) || close(back, u))
                        }
                        _ => false,
                    });
                    if tie_conflict {
                        tie_seen = true;
                        ctx.count("n.c13_tie_skipped");
                    } else {
                        ctx.count("n.relay_checked");
                        if creads.iter().filter(|c| c.is_some()).count() >= 2 {
                            ctx.count("reach.relay_competing_commands");
                            if j > 0 && creads[0].is_some() {
                                ctx.count("reach.newest_not_at_side1");
                            }
                        }
                        for (l, &k) in ts.iter().enumerate() {
                            let f = relay_factor(spec, j, l).unwrap_or(1.0);
                            let want = f32_range(v * f);
                            match rd_cmd(&post[k].rd_c) {
                                None => viol2(ctx, &["C13"], "relay", comp, format!("op {}: terminal {} (local {}) reads no command after the update; the newest readable one was {} at local {}", i, k, l, show_c(&creads[j]), j)),
                                Some((gt, gk, gb)) => {
                                    let g = f32::from_bits(gb) as f64;
                                    if gt != tstar {
                                        viol2(ctx, &["C03", "C13"], "relay_time", comp, format!("op {}: terminal {} (local {}) reads a command stamped {} but the newest readable one is stamped {}", i, k, l, gt, tstar));
                                    } else if gk != kind {
                                        viol2(ctx, &["C13"], "relay_kind", comp, format!("op {}: terminal {} (local {}) reads kind {} but the newest command has kind {}", i, k, l, gk, kind));
                                    } else if l != j && matches!(creads[l], Some((t, _, _)) if t == tstar) {
                                        // this terminal already held an agreeing copy with the same stamp
                                        // (checked above, in either direction): nothing to relay to it
                                    } else if want.is_finite() && !(g.is_finite() && (g - want).abs() <= 2e-6 * want.abs().max(g.abs()) + SUBNORMAL_SLACK) {
                                        viol2(ctx, &["C13"], "relay_value", comp, format!("op {}: terminal {} (local {}) reads {:e}; the newest command {:e} at local {} maps to {:e}", i, k, l, g, v, j, want));
                                    }
                                }
                            }
                        }
                    }
                }
            }
        }
        DevSpec::Diff(_) => {
            for &k in ts {
                if post[k].own_c != pre[k].own_c {
                    viol2(ctx, &["C13"], "differential_alters_command", comp, format!("op {}: differential changed the own command of terminal {} from {} to {}", i, k, show_c(&pre[k].own_c), show_c(&post[k].own_c)));
                }
            }
        }
        _ => {}
    }

    // ---- wrappers (C20)
    match (spec, dev) {
        (DevSpec::Act, Dev::Act(_, h)) => {
            let k = ts[0];
            let log: Vec<MotorEv> = h.log.borrow()[motor_before.unwrap_or(0)..].to_vec();
            let td = match pre[k].rd_td {
                Out::Some(_, v) => Some(v),
                _ => None,
            };
            let rej = h.reject.get();
            let uerr = h.update_err.get();
            ctx.count("n.wrapper_update");
            match (td, rej) {
                (Some(v), None) => {
                    let want = vec![MotorEv::SetTd(v), MotorEv::Update];
                    if log != want {
                        viol2(ctx, &["C20"], "actuator_handover", comp, format!("op {}: inner settable saw {:?}, expected {:?}", i, log, want));
                    }
                    let wr = uerr.map(er_of);
                    if ret != Some(wr) {
                        viol2(ctx, &["C20"], "actuator_error_propagation", comp, format!("op {}: update returned {:?}, expected {:?}", i, ret, wr));
                    }
                }
                (Some(_), Some(e)) => {
                    ctx.count("fault.reject");
                    if log.iter().any(|ev| matches!(ev, MotorEv::SetTd(_))) {
                        viol2(ctx, &["C20"], "harness_motor", comp, format!("op {}: rejected set was logged", i));
                    }
                    if ret != Some(Some(er_of(e))) {
                        viol2(ctx, &["C20"], "actuator_error_propagation", comp, format!("op {}: inner set was rejected with E{} but update returned {:?}", i, e, ret));
                    }
                }
                (None, _) => {
                    ctx.count("reach.actuator_sees_nothing");
                    if log != vec![MotorEv::Update] {
                        viol2(ctx, &["C20"], "actuator_handover", comp, format!("op {}: terminal sees nothing but inner settable saw {:?}", i, log));
                    }
                    let wr = uerr.map(er_of);
                    if ret != Some(wr) {
                        viol2(ctx, &["C20"], "actuator_error_propagation", comp, format!("op {}: update returned {:?}, expected {:?}", i, ret, wr));
                    }
                }
            }
            if uerr.is_some() {
                ctx.count("fault.inner_update_err");
            }
            // (an inner object that itself reports back on the terminal is the harness's doing)
            let want_s = if fb_wrote.is_some() { fb_wrote } else { pre[k].own_s };
            if post[k].own_s != want_s || post[k].own_c != pre[k].own_c {
                viol2(ctx, &["C20"], "actuator_touches_terminal", comp, format!("op {}: actuator wrapper changed its terminal's own slots", i));
            }
        }
        (DevSpec::Enc, Dev::Enc(_, h)) => {
            let k = ts[0];
            ctx.count("n.wrapper_update");
            let ups = h.updates.get() - enc_updates_before;
            if ups != 1 {
                viol2(ctx, &["C20"], "encoder_inner_update", comp, format!("op {}: inner getter was updated {} times", i, ups));
            }
            let cur = norm(&h.cur.borrow());
            if h.pending.borrow().is_none() && enc_had_pending {
                ctx.count("reach.encoder_reading_changes_in_update");
            }
            // slot when the wrapper writes nothing: what the inner object wrote from its update() if it did,
            // else what was there; and, once the wrapper has got past the inner update and refreshed its
            // terminal, the followed state if the terminal follows a getter that holds one
            let after_inner_update = if fb_wrote.is_some() { fb_wrote } else { pre[k].own_s };
            let untouched = if enc_followed.is_some() { enc_followed } else { after_inner_update };
            let (want_slot, want_ret) = match (h.update_err.get(), cur) {
                (Some(e), _) => {
                    ctx.count("fault.inner_update_err");
                    (after_inner_update, Some(er_of(e)))
                }
                (None, Out::Err(e)) => {
                    ctx.count("fault.inner_get_err");
                    (untouched, Some(e))
                }
                (None, Out::None) => {
                    ctx.count("fault.inner_absent");
                    (untouched, None)
                }
                (None, Out::Some(t, Val::S(s))) => (Some((t, s)), None),
                _ => (untouched, None),
            };
            if post[k].own_s != want_slot {
                viol2(ctx, &["C20"], "encoder_relay", comp, format!("op {}: terminal own state is {} but the inner getter delivered {} (slot before: {})", i, show_s(&post[k].own_s), cur.show(), show_s(&pre[k].own_s)));
            }
            if ret != Some(want_ret) {
                viol2(ctx, &["C20"], "encoder_error_propagation", comp, format!("op {}: update returned {:?}, expected {:?}", i, ret, want_ret));
            }
        }
        (DevSpec::Pid(..), Dev::Pid(_, h)) => {
            let k = ts[0];
            ctx.count("n.wrapper_update");
            let tw = twin.expect("twin exists for every pid wrapper");
            let log: Vec<MotorEv> = h.log.borrow()[motor_before.unwrap_or(0)..].to_vec();
            if let Out::Some(_, Val::T(t, c, s)) = pre[k].rd_td {
                if let Some(s) = s {
                    tw.cur_state = s;
                }
                if let Some(c) = c {
                    tw.cur_cmd = c;
                }
                let _ = tw.pid.set(cmd_from(tw.cur_cmd.0, tw.cur_cmd.1));
                tw.sensor.set(Ok(Some(Datum::new(
                    Time(t),
                    State::new_raw(f32::from_bits(tw.cur_state[0]), f32::from_bits(tw.cur_state[1]), f32::from_bits(tw.cur_state[2])),
                ))));
                let _ = tw.pid.update();
                ctx.count("reach.pid_wrapper_fed");
            }
            let tout = norm(&tw.pid.get());
            let rej = h.reject.get();
            let uerr = h.update_err.get();
            let (want_log, want_ret): (Vec<MotorEv>, Option<Er>) = match (uerr, tout, rej) {
                (Some(e), _, _) => (vec![MotorEv::Update], Some(er_of(e))),
                (None, Out::Some(_, Val::F(b)), None) => (vec![MotorEv::Update, MotorEv::SetF(b)], None),
                (None, Out::Some(..), Some(e)) => (vec![MotorEv::Update], Some(er_of(e))),
                (None, _, _) => (vec![MotorEv::Update], None),
            };
            if matches!(tout, Out::Some(..)) {
                ctx.count("reach.pid_wrapper_drives_motor");
            }
            if log != want_log {
                viol2(ctx, &["C20"], "pid_wrapper_twin", comp, format!("op {}: inner motor saw {:?}; a stand-alone CommandPID fed the same (time,state,command) sequence implies {:?} (twin output {})", i, log, want_log, tout.show()));
            }
            if ret != Some(want_ret) {
                viol2(ctx, &["C20"], "pid_wrapper_error_propagation", comp, format!("op {}: update returned {:?}, expected {:?}", i, ret, want_ret));
            }
        }
        _ => {}
    }
    let _ = plan;
    tie_seen
}

fn scale_of(reads: &[Option<(i64, [u32; 3])>], c: usize) -> f64 {
    reads
        .iter()
        .flatten()
        .map(|r| f32::from_bits(r.1[c]).abs() as f64)
        .fold(0.0, f64::max)
}
