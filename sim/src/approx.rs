//! Reference-model arithmetic: an f64 value together with a running bound on how far an
//! f32 implementation of the same formula may be from it (DESIGN §2.4).

pub const U: f64 = 5.960_464_477_539_063e-8; // 2^-24
const TINY: f64 = 1.5e-45; // one f32 subnormal step

#[derive(Clone, Copy, Debug)]
pub struct Approx {
    pub v: f64,
    pub e: f64,
}

impl Approx {
    /// An exactly known f32 value.
    pub fn exact(x: f32) -> Self {
        Approx { v: x as f64, e: 0.0 }
    }
    pub fn new(v: f64, e: f64) -> Self {
        Approx { v, e }
    }
    pub fn zero() -> Self {
        Approx { v: 0.0, e: 0.0 }
    }
    fn round(v: f64, e: f64) -> Self {
        Approx {
            v,
            e: e + (v.abs() + e) * U + TINY,
        }
    }
    /// A sum or difference of two exactly known f32 values whose (f64-rounded) result is itself an
    /// f32 value is computed without error by any IEEE implementation: if the f64 rounding of the
    /// true result lies on the coarser f32 grid, the f32 rounding of the true result is that same
    /// point. Cancellation (Sterbenz) is the case that matters: a difference of neighbouring floats
    /// must not be given an uncertainty as large as itself.
    fn exact_result(v: f64) -> bool {
        v.is_finite() && (v as f32) as f64 == v && (v == 0.0 || v.abs() >= f32::MIN_POSITIVE as f64)
    }
    pub fn add(self, o: Approx) -> Approx {
        let v = self.v + o.v;
        if self.e == 0.0 && o.e == 0.0 && Self::exact_result(v) {
            return Approx { v, e: 0.0 };
        }
        Self::round(v, self.e + o.e)
    }
    pub fn sub(self, o: Approx) -> Approx {
        let v = self.v - o.v;
        if self.e == 0.0 && o.e == 0.0 && Self::exact_result(v) {
            return Approx { v, e: 0.0 };
        }
        Self::round(v, self.e + o.e)
    }
    pub fn mul(self, o: Approx) -> Approx {
        Self::round(
            self.v * o.v,
            self.v.abs() * o.e + o.v.abs() * self.e + self.e * o.e,
        )
    }
    pub fn div(self, o: Approx) -> Approx {
        let den = o.v.abs() - o.e;
        if den <= 0.0 {
            return Approx {
                v: self.v / o.v,
                e: f64::INFINITY,
            };
        }
        let v = self.v / o.v;
        Self::round(v, (self.e + v.abs() * o.e) / den)
    }
    pub fn neg(self) -> Approx {
        Approx { v: -self.v, e: self.e }
    }
    pub fn scale_exact(self, k: f64) -> Approx {
        // multiplication by an exactly representable constant, still one rounding
        Self::round(self.v * k, self.e * k.abs())
    }
    pub fn half(self) -> Approx {
        // division by two is exact in binary floating point (barring underflow)
        Approx {
            v: self.v / 2.0,
            e: self.e / 2.0 + TINY,
        }
    }
    /// seconds from an integer nanosecond difference, as rrtk's Time->Quantity conversion
    /// does it: (ns as f32) / 1e9 : two roundings.
    pub fn seconds(ns: i64) -> Approx {
        let v = ns as f64 / 1e9;
        Approx {
            v,
            e: v.abs() * 2.5 * U + TINY,
        }
    }
    pub fn usable(&self) -> bool {
        self.v.is_finite() && self.e.is_finite() && self.v.abs() < 1e30
    }
    /// A comparison is *meaningful* when the bound is small relative to the value scale.
    pub fn well_conditioned(&self, scale: f64) -> bool {
        self.usable() && 8.0 * self.e <= 1e-2 * scale.max(self.v.abs()).max(1e-30)
    }
    pub fn admits(&self, x: f32) -> bool {
        if !x.is_finite() {
            return false;
        }
        (x as f64 - self.v).abs() <= 8.0 * self.e + 1e-30
    }
}

/// Order-independent sum: value = sum of terms, error = sum of term errors +
/// n * U * sum |term|.
pub fn sum(terms: &[Approx]) -> Approx {
    let mut v = 0.0;
    let mut e = 0.0;
    let mut a = 0.0;
    for t in terms {
        v += t.v;
        e += t.e;
        a += t.v.abs() + t.e;
    }
    Approx {
        v,
        e: e + (terms.len() as f64) * U * a + TINY,
    }
}
