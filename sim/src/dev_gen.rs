//! Plan generators for the W-device world (C08, C09, C13, C20 and the device share of C03).

use crate::core::Tier;
use crate::dev_arena::*;
use crate::plan::{fb, Plan};
use crate::rng::Rng;
use std::collections::BTreeSet;

/// Unique timestamps from several skewed issuer clocks.
struct Stamps {
    used: BTreeSet<i64>,
    base: i64,
    span: i64,
    tick: i64,
    monotone: bool,
}
impl Stamps {
    fn new(rng: &mut Rng, allow_extreme: bool, monotone: bool) -> Self {
        let (base, span) = match rng.below(if allow_extreme { 6 } else { 4 }) {
            0 => (0, 1_000),
            1 => (rng.range(-1_000_000_000_000, 1_000_000_000_000), 10_000_000_000),
            2 => (-5_000_000_000, 10_000_000_000),
            3 => (1i64 << 40, 1 << 30),
            4 => (i64::MAX - 2_000_000, 1_000_000),
            _ => (*rng.pick(&[i64::MIN + 1_000, i64::MIN]), 1_000_000),
        };
        Stamps { used: BTreeSet::new(), base, span, tick: 0, monotone }
    }
    fn next(&mut self, rng: &mut Rng) -> i64 {
        if self.base == i64::MIN && !self.monotone && !self.used.contains(&i64::MIN) && rng.chance(0.3) {
            self.used.insert(i64::MIN);
            return i64::MIN;
        }
        loop {
            let t = if self.monotone {
                self.tick += rng.range(1, (self.span / 64).max(2));
                self.base + self.tick
            } else {
                self.base + rng.range(0, self.span)
            };
            if self.used.insert(t) {
                return t;
            }
        }
    }
    /// a stamp strictly newer than everything issued so far
    fn newest(&mut self, rng: &mut Rng) -> i64 {
        let m = self.used.iter().next_back().copied().unwrap_or(self.base);
        let t = m.saturating_add(rng.range(1, 1000));
        self.used.insert(t);
        t
    }
}

fn state_op(plan: &mut Plan, rng: &mut Rng, term: usize, t: i64, scale: f32) {
    plan.push(
        "SS",
        &[
            term as i64,
            t,
            fb(rng.moderate_f32() * scale),
            fb(rng.moderate_f32() * scale),
            fb(rng.moderate_f32() * scale),
        ],
    );
}
fn cmd_op(plan: &mut Plan, rng: &mut Rng, term: usize, t: i64) {
    // "all finite values": now and then one whose image under a ratio leaves the f32 range (it is
    // relayed as +-inf)
    let v = if rng.chance(0.01) {
        // ... or a subnormal one
        *rng.pick(&[1e-40f32, -3e-42, 1e-39, -1e-44])
    } else if rng.chance(0.03) {
        *rng.pick(&[f32::MAX, -f32::MAX, 1e37, -3e38, 3e36])
    } else {
        rng.moderate_f32()
    };
    plan.push("SC", &[term as i64, t, rng.below(3) as i64, fb(v)]);
}

/// a tooth list of the given length; one in eight has a first or last entry that is not a whole number
fn tooth_list(rng: &mut Rng, n: usize) -> Vec<u32> {
    let mut t: Vec<u32> = (0..n).map(|_| rng.range(6, 60) as u32).collect();
    if rng.chance(0.125) {
        let k = if rng.chance(0.5) { 0 } else { n - 1 };
        let whole = t[k] as f32;
        let v = match rng.below(4) {
            0 => whole + 0.5,
            1 => f32::from_bits(whole.to_bits() - 1),
            2 => whole + 0.25,
            _ => whole * 1.5 + 0.125,
        };
        t[k] = v.to_bits();
    }
    t
}

fn ratio(rng: &mut Rng) -> f32 {
    match rng.below(6) {
        0 => 2.0,
        1 => -0.5,
        2 => 1.0,
        _ => rng.mag_f32(1e-2, 1e2),
    }
}

fn random_device(rng: &mut Rng, allow_diff: bool) -> DevSpec {
    match rng.below(if allow_diff { 10 } else { 7 }) {
        0 | 1 => DevSpec::Invert,
        2 | 3 => DevSpec::Gear(ratio(rng).to_bits()),
        4 => {
            let n = rng.range(2, 6) as usize;
            DevSpec::GearTeeth(tooth_list(rng, n))
        }
        5 | 6 => DevSpec::Axle(rng.range(0, 6) as usize),
        _ => DevSpec::Diff(rng.below(5) as u8),
    }
}

fn term_count(specs: &[DevSpec]) -> usize {
    specs.iter().map(|s| s.n_terms()).sum()
}
fn term_ranges(specs: &[DevSpec]) -> Vec<(usize, usize)> {
    let mut v = Vec::new();
    let mut at = 0;
    for s in specs {
        v.push((at, at + s.n_terms()));
        at += s.n_terms();
    }
    v
}

// ------------------------------------------------------------------ C09

/// Breadth-first enumeration of every reachable matching on n terminals with a shortest op
/// path to it. Returns (partner array, path) per matching.
fn matchings(n: usize) -> Vec<(Vec<Option<usize>>, Vec<(u8, usize, usize)>)> {
    let mut seen: Vec<(Vec<Option<usize>>, Vec<(u8, usize, usize)>)> = vec![(vec![None; n], Vec::new())];
    let mut head = 0;
    while head < seen.len() {
        let (state, path) = seen[head].clone();
        head += 1;
        let mut ops: Vec<(u8, usize, usize)> = Vec::new();
        for a in 0..n {
            for b in 0..n {
                if a != b {
                    ops.push((0, a, b));
                }
            }
            ops.push((1, a, 0));
        }
        for (k, a, b) in ops {
            let mut st = state.clone();
            if k == 0 {
                for x in [a, b] {
                    if let Some(p) = st[x] {
                        st[p] = None;
                        st[x] = None;
                    }
                }
                st[a] = Some(b);
                st[b] = Some(a);
            } else if let Some(p) = st[a] {
                st[p] = None;
                st[a] = None;
            }
            if !seen.iter().any(|(s, _)| *s == st) {
                let mut p2 = path.clone();
                p2.push((k, a, b));
                seen.push((st, p2));
            }
        }
    }
    seen
}

/// Number of (matching, operation) pairs for 2..=6 terminals: 8 + 36 + 160 + 650 + 2736.
pub const C09_PAIRS: u64 = 3590;

/// The k-th (matching, operation) pair in breadth-first order, as a plan: states and commands
/// on every terminal, the shortest path to the matching, then the operation.
fn gen_c09_enumerated(prop: &str, rng: &mut Rng, seed: u64, run: u64) -> Plan {
    let mut k = run;
    let mut n = 2usize;
    loop {
        let cnt = matchings(n).len() as u64 * (n * (n - 1) + n) as u64;
        if k < cnt {
            break;
        }
        k -= cnt;
        n += 1;
    }
    let ms = matchings(n);
    let nops = (n * (n - 1) + n) as u64;
    let (_, path) = &ms[(k / nops) as usize];
    let mut ops: Vec<(u8, usize, usize)> = Vec::new();
    for a in 0..n {
        for b in 0..n {
            if a != b {
                ops.push((0, a, b));
            }
        }
        ops.push((1, a, 0));
    }
    let last = ops[(k % nops) as usize];
    let mut plan = Plan::new("device", prop, seed, run);
    plan.sets("devs", &specs_text(&(0..n).map(|_| DevSpec::Ext).collect::<Vec<_>>()));
    let mut st = Stamps::new(rng, true, false);
    for i in 0..n {
        if rng.chance(0.9) {
            let t = st.next(rng);
            plan.push("SS", &[i as i64, t, fb((2.0f32).powi(i as i32)), fb(rng.range(-4, 4) as f32), fb(rng.range(-4, 4) as f32)]);
        }
        if rng.chance(0.8) {
            let t = st.next(rng);
            cmd_op(&mut plan, rng, i, t);
        }
    }
    for (kind, a, b) in path.iter().chain(std::iter::once(&last)) {
        if *kind == 0 {
            plan.push("C", &[*a as i64, *b as i64]);
        } else {
            plan.push("D", &[*a as i64]);
        }
    }
    plan
}

pub fn gen_c09(prop: &str, tier: Tier, rng: &mut Rng, seed: u64, run: u64) -> Plan {
    if run < C09_PAIRS {
        // the first runs of every batch enumerate all (matching, operation) pairs exhaustively
        return gen_c09_enumerated(prop, rng, seed, run);
    }
    let mut plan = Plan::new("device", prop, seed, run);
    let n = rng.range(2, 6) as usize;
    let specs: Vec<DevSpec> = (0..n).map(|_| DevSpec::Ext).collect();
    plan.sets("devs", &specs_text(&specs));
    let mut st = Stamps::new(rng, true, false);
    for i in 0..n {
        if rng.chance(0.85) {
            let t = st.next(rng);
            plan.push(
                "SS",
                &[i as i64, t, fb((2.0f32).powi(i as i32)), fb(rng.range(-4, 4) as f32), fb(rng.range(-4, 4) as f32)],
            );
        }
        if rng.chance(0.7) {
            let t = st.next(rng);
            cmd_op(&mut plan, rng, i, t);
        }
    }
    let maxops = if tier == Tier::Quick { 16 } else { 40 };
    let nops = rng.range(1, maxops);
    let mut last_pair: Option<(usize, usize)> = None;
    for _ in 0..nops {
        match rng.below(12) {
            0..=5 => {
                // connect, biased to the interesting shapes
                let (a, b) = match (last_pair, rng.below(4)) {
                    (Some((a, b)), 0) => (a, b),
                    (Some((a, b)), 1) => (b, a),
                    (Some((a, _)), 2) => {
                        let mut c = rng.below(n as u64) as usize;
                        if c == a {
                            c = (c + 1) % n;
                        }
                        (a, c)
                    }
                    _ => {
                        let a = rng.below(n as u64) as usize;
                        let mut b = rng.below(n as u64) as usize;
                        if b == a {
                            b = (b + 1) % n;
                        }
                        (a, b)
                    }
                };
                if rng.chance(0.1) {
                    // ... attempted while somebody is reading one of the terminals (usually a partner
                    // whose back-link the call has to clear)
                    plan.push("CB", &[a as i64, b as i64, rng.below(n as u64) as i64]);
                } else {
                    plan.push("C", &[a as i64, b as i64]);
                }
                last_pair = Some((a, b));
            }
            6..=8 => {
                let code = if rng.chance(0.15) { "DB" } else { "D" };
                plan.push(code, &[rng.below(n as u64) as i64]);
            }
            9 => {
                let t = st.next(rng);
                let i = rng.below(n as u64) as usize;
                // "all state values": a component is now and then an f32 that is not an ordinary number
                let odd = |rng: &mut Rng, v: f32| -> f32 {
                    if rng.chance(0.12) {
                        *rng.pick(&[f32::NAN, f32::INFINITY, f32::NEG_INFINITY, -0.0, f32::MAX, -f32::MAX, 1e-42])
                    } else {
                        v
                    }
                };
                let p0 = (2.0f32).powi(i as i32) + rng.range(0, 3) as f32;
                let (v0, a0) = (rng.range(-4, 4) as f32, rng.range(-4, 4) as f32);
                plan.push("SS", &[i as i64, t, fb(odd(rng, p0)), fb(odd(rng, v0)), fb(odd(rng, a0))]);
            }
            _ => {
                // sometimes a command with a stamp that is already in use elsewhere (a tie: either
                // candidate is an acceptable answer, but it must be one of them, whole)
                let t = if rng.chance(0.2) { st.used.iter().next_back().copied().unwrap_or(0) } else { st.next(rng) };
                let i = rng.below(n as u64) as usize;
                cmd_op(&mut plan, rng, i, t);
            }
        }
    }
    plan
}

// ------------------------------------------------------------------ C08

fn random_links(plan: &mut Plan, rng: &mut Rng, nt: usize, density: f64) {
    if nt < 2 {
        return;
    }
    let k = ((nt as f64) * density) as usize;
    for _ in 0..k.max(1) {
        let a = rng.below(nt as u64) as usize;
        let mut b = rng.below(nt as u64) as usize;
        if a == b {
            b = (b + 1) % nt;
        }
        plan.push("C", &[a as i64, b as i64]);
    }
}

pub fn gen_c08(prop: &str, tier: Tier, rng: &mut Rng, seed: u64, run: u64) -> Plan {
    let mut plan = Plan::new("device", prop, seed, run);
    let ndev = rng.range(1, 4) as usize;
    let mut specs: Vec<DevSpec> = (0..ndev).map(|_| random_device(rng, true)).collect();
    // make every kind appear regularly
    match run % 8 {
        0 => specs[0] = DevSpec::Diff((run / 8 % 5) as u8),
        1 => specs[0] = DevSpec::Axle((run / 8 % 7) as usize),
        2 => {
            let n = 2 + (run / 8 % 5) as usize;
            specs[0] = DevSpec::GearTeeth(tooth_list(rng, n));
        }
        _ => {}
    }
    for _ in 0..rng.range(0, 4) {
        specs.push(DevSpec::Ext);
    }
    plan.sets("devs", &specs_text(&specs));
    plan.set("gear_ctor_quantity", rng.below(2) as i64);
    let nt = term_count(&specs);
    let ranges = term_ranges(&specs);
    let mut st = Stamps::new(rng, true, false);
    // (readings far from 1: squares of such values leave the f32 range long before the values do)
    let scale = if rng.chance(0.06) {
        *rng.pick(&[1e19f32, 3e20, 1e25, 1e30, 1e-20, 1e-23, 1e-27])
    } else {
        *rng.pick(&[1.0f32, 1.0, 0.125, 64.0])
    };
    // in an eighth of the runs some device terminals get their states by FOLLOWING a getter (pulled by
    // the owning device's update) instead of by set
    let follow_mode = rng.chance(0.125);
    let dens = if follow_mode { *rng.pick(&[0.0, 0.0, 0.3]) } else { *rng.pick(&[0.0, 0.3, 0.6]) };
    random_links(&mut plan, rng, nt, dens);
    let rounds = rng.range(1, if tier == Tier::Quick { 5 } else { 8 });
    let presence = *rng.pick(&[0.2, 0.5, 0.8, 1.0]);
    for _ in 0..rounds {
        if follow_mode {
            for d in 0..ndev {
                let (lo, hi) = ranges[d];
                for k in lo..hi {
                    if rng.chance(0.3) {
                        if rng.chance(0.85) {
                            let t = st.next(rng);
                            plan.push("TF", &[k as i64, t, fb(rng.moderate_f32() * scale), fb(rng.moderate_f32() * scale), fb(rng.moderate_f32() * scale)]);
                        } else {
                            plan.push("TFN", &[k as i64]);
                        }
                    }
                    if rng.chance(0.15) {
                        let t = st.next(rng);
                        plan.push("TFC", &[k as i64, t, rng.below(3) as i64, fb(rng.moderate_f32())]);
                    }
                }
            }
        }
        for k in 0..nt {
            if rng.chance(presence * 0.6) {
                let t = st.next(rng);
                state_op(&mut plan, rng, k, t, scale);
            }
            if rng.chance(0.1) {
                let t = st.next(rng);
                cmd_op(&mut plan, rng, k, t);
            }
        }
        // satisfied-constraint set-ups (idempotence): write consistent states on a device
        if rng.chance(0.2) {
            let d = rng.below(ndev as u64) as usize;
            let (lo, hi) = ranges[d];
            if let (DevSpec::Invert, true) = (&specs[d], hi - lo == 2) {
                let t = st.next(rng);
                let (p, v, a) = (rng.moderate_f32(), rng.moderate_f32(), rng.moderate_f32());
                plan.push("SS", &[lo as i64, t, fb(p), fb(v), fb(a)]);
                let t2 = st.next(rng);
                plan.push("SS", &[lo as i64 + 1, t2, fb(-p), fb(-v), fb(-a)]);
            } else if let DevSpec::Axle(n) = &specs[d] {
                let (p, v, a) = (rng.moderate_f32(), rng.moderate_f32(), rng.moderate_f32());
                for j in 0..*n {
                    let t = st.next(rng);
                    plan.push("SS", &[(lo + j) as i64, t, fb(p), fb(v), fb(a)]);
                }
            } else if let (Some(r), true) = (specs[d].gear_ratio(), hi - lo == 2) {
                // gear train: side 2 = ratio * side 1 computed the way the device computes it, then
                // (often) one or two components knocked off by a few ulps or replaced - readings that
                // *nearly* mesh or mesh in some components only still have to be projected
                let s1 = [rng.moderate_f32() * scale, rng.moderate_f32() * scale, rng.moderate_f32() * scale];
                let mut s2 = [s1[0] * r, s1[1] * r, s1[2] * r];
                if rng.chance(0.6) {
                    for _ in 0..rng.range(1, 2) {
                        let c = rng.below(3) as usize;
                        s2[c] = match rng.below(3) {
                            0 => f32::from_bits(s2[c].to_bits().wrapping_add(rng.range(1, 3) as u32)),
                            1 => s2[c] * (1.0 + 1e-5),
                            _ => rng.moderate_f32() * scale,
                        };
                        if !s2[c].is_finite() {
                            s2[c] = 0.0;
                        }
                    }
                }
                let t = st.next(rng);
                plan.push("SS", &[lo as i64, t, fb(s1[0]), fb(s1[1]), fb(s1[2])]);
                let t2 = st.next(rng);
                plan.push("SS", &[lo as i64 + 1, t2, fb(s2[0]), fb(s2[1]), fb(s2[2])]);
            } else if let (DevSpec::Diff(_), true) = (&specs[d], hi - lo == 3) {
                // differential: sum = side1 + side2 exactly, sometimes off in one component
                let a = [rng.moderate_f32() * scale, rng.moderate_f32() * scale, rng.moderate_f32() * scale];
                let b = [rng.moderate_f32() * scale, rng.moderate_f32() * scale, rng.moderate_f32() * scale];
                let mut c = [a[0] + b[0], a[1] + b[1], a[2] + b[2]];
                if rng.chance(0.5) {
                    let k = rng.below(3) as usize;
                    c[k] = if rng.chance(0.5) { f32::from_bits(c[k].to_bits().wrapping_add(1)) } else { rng.moderate_f32() * scale };
                    if !c[k].is_finite() {
                        c[k] = 0.0;
                    }
                }
                for (j, x) in [a, b, c].iter().enumerate() {
                    let t = st.next(rng);
                    plan.push("SS", &[(lo + j) as i64, t, fb(x[0]), fb(x[1]), fb(x[2])]);
                }
            }
        }
        let nupd = rng.range(1, 2 * ndev as i64);
        for _ in 0..nupd {
            plan.push("UD", &[rng.below(ndev as u64) as i64]);
        }
        if rng.chance(0.25) {
            if rng.chance(0.5) {
                random_links(&mut plan, rng, nt, 0.2);
            } else if nt > 0 {
                plan.push("D", &[rng.below(nt as u64) as i64]);
            }
        }
    }
    plan
}

// ------------------------------------------------------------------ C13

pub fn gen_c13(prop: &str, tier: Tier, rng: &mut Rng, seed: u64, run: u64) -> Plan {
    let mut plan = Plan::new("device", prop, seed, run);
    let k = rng.range(1, 5) as usize;
    let mut specs: Vec<DevSpec> = Vec::new();
    for _ in 0..k {
        specs.push(match rng.below(6) {
            0 | 1 => DevSpec::Invert,
            2 | 3 => DevSpec::Gear(ratio(rng).to_bits()),
            4 => DevSpec::Axle(rng.range(2, 6) as usize),
            _ => {
                let n = rng.range(2, 6) as usize;
                DevSpec::GearTeeth(tooth_list(rng, n))
            }
        });
    }
    let with_diff = rng.chance(0.25);
    if with_diff {
        specs.push(DevSpec::Diff(rng.below(5) as u8));
    }
    if rng.chance(0.1) {
        specs.push(DevSpec::Axle(1));
    }
    let ndev = specs.len();
    let n_ext = rng.range(2, 5) as usize;
    for _ in 0..n_ext {
        specs.push(DevSpec::Ext);
    }
    plan.sets("devs", &specs_text(&specs));
    plan.set("gear_ctor_quantity", rng.below(2) as i64);
    let ranges = term_ranges(&specs);
    let nt = term_count(&specs);
    let ext0 = ranges[ndev].0;
    // chain: last terminal of device i -- first terminal of device i+1
    for d in 0..k.saturating_sub(1) {
        let a = ranges[d].1 - 1;
        let b = ranges[d + 1].0;
        plan.push("C", &[a as i64, b as i64]);
    }
    // ends to external terminals
    plan.push("C", &[ext0 as i64, ranges[0].0 as i64]);
    plan.push("C", &[(ext0 + 1) as i64, (ranges[k - 1].1 - 1) as i64]);
    // spare axle terminals / differential branches to the remaining externals
    let mut spare: Vec<usize> = Vec::new();
    for d in 0..ndev {
        let (lo, hi) = ranges[d];
        if d < k {
            for t in lo + 1..hi.saturating_sub(1) {
                spare.push(t);
            }
        } else {
            for t in lo..hi {
                spare.push(t);
            }
        }
    }
    for e in 2..n_ext {
        if !spare.is_empty() {
            let j = rng.below(spare.len() as u64) as usize;
            plan.push("C", &[(ext0 + e) as i64, spare.remove(j) as i64]);
        }
    }
    let mono = rng.chance(0.5);
    let mut st = Stamps::new(rng, true, mono);
    let rounds = rng.range(1, if tier == Tier::Quick { 5 } else { 8 });
    let stale_p = *rng.pick(&[0.0, 0.1, 0.3]);
    let cmd_follow_mode = rng.chance(0.1);
    if cmd_follow_mode {
        // free a few device terminals again (followers occur on free and on coupled terminals)
        for d in 0..ndev {
            let (lo, hi) = ranges[d];
            for kk in lo..hi {
                if rng.chance(0.15) {
                    plan.push("D", &[kk as i64]);
                }
            }
        }
    }
    for _ in 0..rounds {
        // issue one or more commands
        let ncmd = rng.range(1, 3);
        for c in 0..ncmd {
            let term = match rng.below(6) {
                0 | 1 => ext0,
                2 | 3 => ext0 + 1,
                4 => ext0 + rng.below(n_ext as u64) as usize,
                _ => rng.below(nt as u64) as usize,
            };
            let t = if c == ncmd - 1 && !rng.chance(stale_p) { st.newest(rng) } else { st.next(rng) };
            cmd_op(&mut plan, rng, term, t);
        }
        if rng.chance(0.15) {
            let t = st.next(rng);
            let k = rng.below(nt as u64) as usize;
            state_op(&mut plan, rng, k, t, 1.0);
        }
        // in a tenth of the runs device terminals get commands by FOLLOWING a getter (pulled into the
        // terminal's own slot by the owning device at the start of each of its updates): usually an older
        // command than the newest one around
        if cmd_follow_mode {
            for d in 0..ndev {
                let (lo, hi) = ranges[d];
                for kk in lo..hi {
                    if rng.chance(0.25) {
                        if rng.chance(0.85) {
                            let t = st.next(rng);
                            plan.push("TFC", &[kk as i64, t, rng.below(3) as i64, fb(rng.moderate_f32())]);
                        } else {
                            plan.push("TFCN", &[kk as i64]);
                        }
                    }
                }
            }
        }
        // a coupling is taken apart (from either end) and usually not put back: commands issued from
        // then on must stay on their side of the gap
        if rng.chance(0.08) {
            plan.push("D", &[rng.below(nt as u64) as i64]);
            if rng.chance(0.6) {
                let term = rng.below(nt as u64) as usize;
                let t = st.newest(rng);
                cmd_op(&mut plan, rng, term, t);
            }
        }
        // schedule: ordered sweep, reverse sweep, or arbitrary
        match rng.below(4) {
            0 => {
                for d in 0..k {
                    plan.push("UD", &[d as i64]);
                    if rng.chance(0.3) {
                        plan.push("UD", &[rng.below(ndev as u64) as i64]);
                    }
                }
            }
            1 => {
                for d in (0..k).rev() {
                    plan.push("UD", &[d as i64]);
                }
            }
            _ => {
                for _ in 0..rng.range(1, 3 * ndev as i64) {
                    plan.push("UD", &[rng.below(ndev as u64) as i64]);
                }
            }
        }
        if rng.chance(0.1) {
            let a = rng.below(nt as u64) as usize;
            let mut b = rng.below(nt as u64) as usize;
            if a == b {
                b = (b + 1) % nt;
            }
            plan.push("C", &[a as i64, b as i64]);
        }
    }
    plan
}

// ------------------------------------------------------------------ C20

pub fn gen_c20(prop: &str, tier: Tier, rng: &mut Rng, seed: u64, run: u64) -> Plan {
    let mut plan = Plan::new("device", prop, seed, run);
    let which = run % 3;
    let mut specs: Vec<DevSpec> = Vec::new();
    specs.push(match which {
        0 => DevSpec::Act,
        1 => DevSpec::Enc,
        _ => {
            let (k, b) = (rng.below(3) as u8, rng.moderate_f32().to_bits());
            plan.set("pid_cmd_kind", k as i64);
            plan.set("pid_cmd_bits", b as i64);
            DevSpec::Pid(k, b)
        }
    });
    // the partner: an external terminal, another wrapper, or an inverter + external
    let partner = rng.below(4);
    match partner {
        0 | 1 => specs.push(DevSpec::Ext),
        2 => specs.push(if which == 1 { DevSpec::Act } else { DevSpec::Enc }),
        _ => {
            specs.push(DevSpec::Invert);
            specs.push(DevSpec::Ext);
        }
    }
    plan.sets("devs", &specs_text(&specs));
    for kname in ["pkp", "pki", "pkd", "vkp", "vki", "vkd", "akp", "aki", "akd"] {
        plan.setf(kname, if rng.chance(0.15) { 0.0 } else { rng.moderate_f32() });
    }
    plan.set("pid_t0", rng.range(-1_000_000_000, 1_000_000_000));
    plan.setf("pid_s0p", rng.moderate_f32());
    plan.setf("pid_s0v", rng.moderate_f32());
    plan.setf("pid_s0a", rng.moderate_f32());
    let ranges = term_ranges(&specs);
    let nt = term_count(&specs);
    let ndev = specs.len();
    let wterm = 0usize;
    // wire
    match partner {
        0 | 1 | 2 => plan.push("C", &[wterm as i64, ranges[1].0 as i64]),
        _ => {
            plan.push("C", &[wterm as i64, ranges[1].0 as i64]);
            plan.push("C", &[(ranges[1].0 + 1) as i64, ranges[2].0 as i64]);
        }
    }
    let feed = nt - 1; // terminal through which the harness feeds data (ext when there is one)
    let feed = if matches!(specs[ndev - 1], DevSpec::Ext) { feed } else { wterm };
    let monotone = which == 2;
    let mut st = Stamps::new(rng, !monotone, monotone);
    let rounds = rng.range(1, if tier == Tier::Quick { 12 } else { 32 });
    let fault = *rng.pick(&[0.0, 0.05, 0.15, 0.3]);
    // the PID wrapper usually gets a state first; in the other runs the terminal carries commands
    // only for a while (or for ever) and the controller runs on its constructor state, exactly as a
    // stand-alone CommandPID fed the constructor state at the commands' times would
    let cmd_only_rounds = if which == 2 && rng.chance(0.4) { rng.range(2, 6) } else { 0 };
    if which == 2 && cmd_only_rounds == 0 {
        let t = st.next(rng);
        state_op(&mut plan, rng, feed, t, 1.0);
    }
    for _ in 0..cmd_only_rounds {
        let t = st.next(rng);
        if rng.chance(0.6) {
            // the same command again with a later stamp
            plan.push("SC", &[feed as i64, t, plan.get("pid_cmd_kind"), plan.get("pid_cmd_bits")]);
        } else {
            cmd_op(&mut plan, rng, feed, t);
        }
        plan.push("UD", &[0]);
    }
    // partition / heal: in a third of the runs the wrapper's link is cut for a few rounds and restored
    // (while cut the wrapper's terminal sees only what it holds itself - usually nothing)
    let partition_p = if rng.chance(0.33) { 0.12 } else { 0.0 };
    let mut cut = false;
    let mut last_enc_t: Option<i64> = None;
    let mut last_enc_vals: Option<(f32, f32, f32)> = None;
    // in a quarter of the runs the inner objects talk back to their wrapper's terminal from inside
    // the calls the wrapper makes on them
    let feedback_p = if rng.chance(0.25) { 0.3 } else { 0.0 };
    // in a sixth of the encoder runs the wrapper's own terminal also follows a state getter
    let enc_follow = which == 1 && rng.chance(0.17);
    for _ in 0..rounds {
        if enc_follow && rng.chance(0.4) {
            if rng.chance(0.8) {
                let t = st.next(rng);
                plan.push("TF", &[wterm as i64, t, fb(rng.moderate_f32()), fb(rng.moderate_f32()), fb(rng.moderate_f32())]);
            } else {
                plan.push("TFN", &[wterm as i64]);
            }
        }
        if feedback_p > 0.0 && rng.chance(feedback_p) {
            let d = if rng.chance(0.8) { 0 } else { rng.below(ndev as u64) as usize };
            if matches!(specs[d], DevSpec::Act | DevSpec::Enc | DevSpec::Pid(..)) {
                let t = st.next(rng);
                let mode = *rng.pick(&[1, 1, 2, 0]);
                plan.push("FB", &[d as i64, mode, t, fb(rng.moderate_f32()), fb(rng.moderate_f32()), fb(rng.moderate_f32())]);
            }
        }
        if partition_p > 0.0 && rng.chance(if cut { 0.4 } else { partition_p }) {
            if cut {
                plan.push("C", &[wterm as i64, ranges[1].0 as i64]);
            } else {
                plan.push("D", &[wterm as i64]);
            }
            cut = !cut;
        }
        match rng.below(5) {
            0 => {}
            1 => {
                let t = st.next(rng);
                state_op(&mut plan, rng, feed, t, 1.0);
            }
            2 => {
                let t = st.next(rng);
                cmd_op(&mut plan, rng, feed, t);
            }
            _ => {
                let t = st.next(rng);
                state_op(&mut plan, rng, feed, t, 1.0);
                if rng.chance(0.5) {
                    let t = st.next(rng);
                    cmd_op(&mut plan, rng, feed, t);
                }
            }
        }
        // inner object faults
        for d in 0..ndev {
            match specs[d] {
                DevSpec::Act | DevSpec::Pid(..) => {
                    if rng.chance(fault) {
                        plan.push("MREJ", &[d as i64, rng.range(1, 3)]);
                    } else if rng.chance(0.3) {
                        plan.push("MREJ", &[d as i64, 0]);
                    }
                    if rng.chance(fault * 0.5) {
                        plan.push("MUERR", &[d as i64, rng.range(1, 3)]);
                    } else if rng.chance(0.3) {
                        plan.push("MUERR", &[d as i64, 0]);
                    }
                }
                DevSpec::Enc => {
                    let r = rng.unit();
                    if r < fault {
                        plan.push("ENCN", &[d as i64]);
                    } else if r < 2.0 * fault {
                        plan.push("ENCE", &[d as i64, rng.range(1, 3)]);
                    } else if rng.chance(0.7) {
                        // (an encoder whose clock is coarser than the polling loop delivers a NEW value under
                        // the stamp of its previous reading now and then)
                        let mut reused_stamp = false;
                        let t = match last_enc_t {
                            Some(t) if !monotone && rng.chance(0.1) => {
                                reused_stamp = true;
                                t
                            }
                            _ => st.next(rng),
                        };
                        last_enc_t = Some(t);
                        // half of the readings only become current inside the inner update()
                        let code = if rng.chance(0.5) { "ENCP" } else { "ENC" };
                        // components are zeros of either sign now and then; a reading that reuses the previous
                        // stamp is sometimes the previous reading with the signs of its zeros flipped (equal
                        // under ==, different as data)
                        let comp = |rng: &mut Rng| -> f32 {
                            if rng.chance(0.12) {
                                if rng.chance(0.5) { 0.0 } else { -0.0 }
                            } else {
                                rng.moderate_f32()
                            }
                        };
                        let (mut p, mut v, mut a) = (comp(rng), comp(rng), comp(rng));
                        if let (true, Some((lp, lv, la))) = (reused_stamp && rng.chance(0.5), last_enc_vals) {
                            let flip = |x: f32| if x == 0.0 { -x } else { x };
                            (p, v, a) = (flip(lp), flip(lv), flip(la));
                            if p != 0.0 && v != 0.0 && a != 0.0 {
                                v = if rng.chance(0.5) { 0.0 } else { -0.0 };
                            }
                        }
                        last_enc_vals = Some((p, v, a));
                        if rng.chance(0.12) {
                            // the very same datum also reaches the link from the other side (a second
                            // encoder on the shaft, a seeded starting pose): the wrapper must still
                            // record its own reading
                            plan.push("SS", &[feed as i64, t, fb(p), fb(v), fb(a)]);
                        }
                        plan.push(code, &[d as i64, t, fb(p), fb(v), fb(a)]);
                    }
                    if rng.chance(fault * 0.5) {
                        plan.push("ENCUERR", &[d as i64, rng.range(1, 3)]);
                    } else if rng.chance(0.3) {
                        plan.push("ENCUERR", &[d as i64, 0]);
                    }
                }
                _ => {}
            }
        }
        // updates: the wrapper, possibly twice, possibly after other devices
        if ndev > 1 && rng.chance(0.4) {
            plan.push("UD", &[rng.range(1, ndev as i64 - 1)]);
        }
        plan.push("UD", &[0]);
        if rng.chance(0.15) {
            plan.push("UD", &[0]);
        }
        if rng.chance(0.05) {
            // relink
            plan.push("D", &[wterm as i64]);
            plan.push("C", &[wterm as i64, ranges[1].0 as i64]);
        }
    }
    plan
}

/// C16(a) device share: the four own/partner presence combinations of a terminal read,
/// and Axle<0..8>::new followed by reads and an update of every terminal.
pub fn gen_c16(prop: &str, _tier: Tier, rng: &mut Rng, seed: u64, run: u64) -> Plan {
    let mut plan = Plan::new("device", prop, seed, run);
    let mut st = Stamps::new(rng, true, false);
    if run % 2 == 0 {
        plan.sets("devs", "ext;ext");
        let combo = (run / 2) % 4;
        plan.push("C", &[0, 1]);
        if combo & 1 == 1 {
            let t = st.next(rng);
            state_op(&mut plan, rng, 0, t, 1.0);
        }
        if combo & 2 == 2 {
            let t = st.next(rng);
            state_op(&mut plan, rng, 1, t, 1.0);
        }
        plan.push("D", &[0]);
        plan.push("C", &[1, 0]);
    } else {
        let n = ((run / 2) % 9) as usize;
        let mut specs = vec![DevSpec::Axle(n)];
        for _ in 0..n.min(3) {
            specs.push(DevSpec::Ext);
        }
        plan.sets("devs", &specs_text(&specs));
        for j in 0..n.min(3) {
            plan.push("C", &[j as i64, (n + j) as i64]);
        }
        for j in 0..n {
            if rng.chance(0.6) {
                let t = st.next(rng);
                state_op(&mut plan, rng, j, t, 1.0);
            }
            if rng.chance(0.3) {
                let t = st.next(rng);
                cmd_op(&mut plan, rng, j, t);
            }
        }
        plan.push("UD", &[0]);
        plan.push("UD", &[0]);
    }
    plan
}

pub fn generate(prop: &str, tier: Tier, rng: &mut Rng, seed: u64, run: u64) -> Plan {
    match prop {
        "C08" => gen_c08(prop, tier, rng, seed, run),
        "C09" => {
            // beyond the enumerated pairs, a quarter of the runs read terminals inside device graphs
            // (random values incl. zeros, device-written slots)
            if run >= C09_PAIRS && run % 4 == 3 {
                if run % 8 == 3 { gen_c08(prop, tier, rng, seed, run) } else { gen_c13(prop, tier, rng, seed, run) }
            } else {
                gen_c09(prop, tier, rng, seed, run)
            }
        }
        "C13" => gen_c13(prop, tier, rng, seed, run),
        "C20" => gen_c20(prop, tier, rng, seed, run),
        _ => match run % 3 {
            0 => gen_c08(prop, tier, rng, seed, run),
            1 => gen_c09(prop, tier, rng, seed, run),
            _ => gen_c13(prop, tier, rng, seed, run),
        },
    }
}

pub fn simplify(plan: &Plan) -> Vec<Plan> {
    let mut out = Vec::new();
    let specs = parse_specs(plan);
    // turn devices that are never updated into padding (keeps numbering)
    for (d, s) in specs.iter().enumerate() {
        if matches!(s, DevSpec::Ext | DevSpec::Pad(_)) {
            continue;
        }
        if !plan.ops.iter().any(|o| o.code == "UD" && o.arg(0) as usize == d) {
            let mut sp = specs.clone();
            sp[d] = DevSpec::Pad(s.n_terms());
            let mut p = plan.clone();
            p.sets("devs", &specs_text(&sp));
            out.push(p);
        }
    }
    // drop trailing free terminals that no op mentions
    // simpler values
    for (i, op) in plan.ops.iter().enumerate() {
        let idxs: &[usize] = match op.code.as_str() {
            "SS" | "ENC" | "ENCP" => &[2, 3, 4],
            "SC" => &[3],
            _ => &[],
        };
        for &j in idxs {
            if j >= op.a.len() {
                continue;
            }
            let cur = f32::from_bits(op.a[j] as u32);
            for cand in [0.0f32, 1.0, cur.round()] {
                if cand.to_bits() != cur.to_bits() {
                    let mut p = plan.clone();
                    p.ops[i].a[j] = fb(cand);
                    out.push(p);
                }
            }
        }
    }
    // simpler gear ratios
    for (d, s) in specs.iter().enumerate() {
        if let DevSpec::Gear(b) = s {
            if f32::from_bits(*b) != 2.0 {
                let mut sp = specs.clone();
                sp[d] = DevSpec::Gear(2.0f32.to_bits());
                let mut p = plan.clone();
                p.sets("devs", &specs_text(&sp));
                out.push(p);
            }
        }
    }
    // small distinct timestamps preserving order
    {
        let mut times: Vec<i64> = plan
            .ops
            .iter()
            .filter(|o| matches!(o.code.as_str(), "SS" | "SC" | "ENC" | "ENCP"))
            .map(|o| o.arg(1))
            .collect();
        times.sort();
        times.dedup();
        if times.iter().enumerate().any(|(i, t)| *t != i as i64 + 1) {
            let mut p = plan.clone();
            for o in p.ops.iter_mut() {
                if matches!(o.code.as_str(), "SS" | "SC" | "ENC" | "ENCP") {
                    let r = times.binary_search(&o.a[1]).unwrap_or(0);
                    o.a[1] = r as i64 + 1;
                }
            }
            out.push(p);
        }
    }
    out
}
