//! C03 operator layer: the `Datum` operator impls and the replace-if-older helpers are
//! pure; most are called by no rrtk component. They are exercised here through
//! harness-defined "operator nodes" (what a user-written stream does with two fetched
//! inputs). The simulator contributes only seeded sampling of timestamp pairs here,
//! and the evidence file reports these evaluations separately.

use crate::core::{guarded, Ctx, Tier};
use crate::plan::{fb, Plan};
use crate::rng::Rng;
use crate::vals::*;
use rrtk::*;

#[derive(Clone, Copy, PartialEq, Eq, Debug)]
enum Ty {
    F,
    Q,
    S,
    C,
}
const TYS: [Ty; 4] = [Ty::F, Ty::Q, Ty::S, Ty::C];
const OPS: [&str; 4] = ["add", "sub", "mul", "div"];

fn allowed(ty: Ty, op: usize) -> bool {
    match ty {
        Ty::F | Ty::Q => true,
        Ty::S | Ty::C => op < 2,
    }
}

fn fop(op: usize, a: f32, b: f32) -> f32 {
    match op {
        0 => a + b,
        1 => a - b,
        2 => a * b,
        _ => a / b,
    }
}

fn st(v: &[f32]) -> State {
    State::new_raw(v[0], v[1], v[2])
}
fn q(v: f32) -> Quantity {
    Quantity::new(v, MILLIMETER)
}

/// expected raw value of `a op b` for a payload type, computed with the plain operators
fn expected_val(ty: Ty, op: usize, a: &[f32], b: &[f32], ck: u8) -> Val {
    match ty {
        Ty::F => Val::F(fbits(fop(op, a[0], b[0]))),
        Ty::Q => {
            let (m, s) = match op {
                _ if cfg!(feature = "v_nodim") => (0, 0),
                2 => (2, 0),
                3 => (0, 0),
                _ => (1, 0),
            };
            Val::Q(fbits(fop(op, a[0], b[0])), m, s)
        }
        Ty::S => Val::S([fbits(fop(op, a[0], b[0])), fbits(fop(op, a[1], b[1])), fbits(fop(op, a[2], b[2]))]),
        Ty::C => Val::C(ck, fbits(fop(op, a[0], b[0]))),
    }
}

macro_rules! bin {
    ($op:expr, $x:expr, $y:expr) => {
        match $op {
            0 => $x + $y,
            1 => $x - $y,
            2 => $x * $y,
            _ => $x / $y,
        }
    };
}
macro_rules! bin2 {
    ($op:expr, $x:expr, $y:expr) => {
        match $op {
            0 => $x + $y,
            _ => $x - $y,
        }
    };
}
macro_rules! asg {
    ($op:expr, $x:expr, $y:expr) => {{
        let mut x = $x;
        match $op {
            0 => x += $y,
            1 => x -= $y,
            2 => x *= $y,
            _ => x /= $y,
        }
        x
    }};
}
macro_rules! asg2 {
    ($op:expr, $x:expr, $y:expr) => {{
        let mut x = $x;
        match $op {
            0 => x += $y,
            _ => x -= $y,
        }
        x
    }};
}

fn dn<T: ToVal>(d: Datum<T>) -> (i64, Val) {
    (d.time.0, d.value.to_val())
}

/// Evaluate one operator form on the real impls.
/// group: 0 datum(op)datum, 1 datum(op=)datum, 2 datum(op)T, 3 datum(op=)T
fn eval_form(group: u8, ty: Ty, op: usize, t1: i64, t2: i64, a: &[f32], b: &[f32], ck: u8) -> (i64, Val) {
    let (t1, t2) = (Time(t1), Time(t2));
    match ty {
        Ty::F => {
            let (x, y) = (Datum::new(t1, a[0]), Datum::new(t2, b[0]));
            match group {
                0 => dn(bin!(op, x, y)),
                1 => dn(asg!(op, x, y)),
                2 => dn(bin!(op, x, b[0])),
                _ => dn(asg!(op, x, b[0])),
            }
        }
        Ty::Q => {
            let (x, y) = (Datum::new(t1, q(a[0])), Datum::new(t2, q(b[0])));
            match group {
                0 => dn(bin!(op, x, y)),
                1 => dn(asg!(op, x, y)),
                2 => dn(bin!(op, x, q(b[0]))),
                _ => dn(asg!(op, x, q(b[0]))),
            }
        }
        Ty::S => {
            let (x, y) = (Datum::new(t1, st(a)), Datum::new(t2, st(b)));
            match group {
                0 => dn(bin2!(op, x, y)),
                1 => dn(asg2!(op, x, y)),
                2 => dn(bin2!(op, x, st(b))),
                _ => dn(asg2!(op, x, st(b))),
            }
        }
        Ty::C => {
            let (x, y) = (Datum::new(t1, cmd_from(ck, a[0].to_bits())), Datum::new(t2, cmd_from(ck, b[0].to_bits())));
            match group {
                0 => dn(bin2!(op, x, y)),
                1 => dn(asg2!(op, x, y)),
                2 => dn(bin2!(op, x, cmd_from(ck, b[0].to_bits()))),
                _ => dn(asg2!(op, x, cmd_from(ck, b[0].to_bits()))),
            }
        }
    }
}

/// State / Command specials with f32 and Datum<f32>: sub 0 mul datum, 1 mul_assign datum,
/// 2 div datum, 3 div_assign datum, 4 mul f32, 5 mul_assign f32, 6 div f32, 7 div_assign f32
fn eval_special(is_cmd: bool, sub: u8, t1: i64, t2: i64, a: &[f32], k: f32, ck: u8) -> (i64, Val) {
    let (t1, t2) = (Time(t1), Time(t2));
    let kd = Datum::new(t2, k);
    if is_cmd {
        let x = Datum::new(t1, cmd_from(ck, a[0].to_bits()));
        match sub {
            0 => dn(x * kd),
            1 => dn({ let mut x = x; x *= kd; x }),
            2 => dn(x / kd),
            3 => dn({ let mut x = x; x /= kd; x }),
            4 => dn(x * k),
            5 => dn({ let mut x = x; x *= k; x }),
            6 => dn(x / k),
            _ => dn({ let mut x = x; x /= k; x }),
        }
    } else {
        let x = Datum::new(t1, st(a));
        match sub {
            0 => dn(x * kd),
            1 => dn({ let mut x = x; x *= kd; x }),
            2 => dn(x / kd),
            3 => dn({ let mut x = x; x /= kd; x }),
            4 => dn(x * k),
            5 => dn({ let mut x = x; x *= k; x }),
            6 => dn(x / k),
            _ => dn({ let mut x = x; x /= k; x }),
        }
    }
}

fn order_class(t1: i64, t2: i64) -> i64 {
    t1.cmp(&t2) as i64 + 1
}
fn mag_class(t: i64) -> i64 {
    if t == i64::MIN || t == i64::MAX {
        3
    } else if t.unsigned_abs() > (1u64 << 62) {
        2
    } else if t < 0 {
        1
    } else {
        0
    }
}

pub fn execute(plan: &Plan, ctx: &mut Ctx) {
    for (oi, op) in plan.ops.iter().enumerate() {
        ctx.cur_op = oi;
        let form = op.arg(0);
        let (t1, t2) = (op.arg(1), op.arg(2));
        let a = [op.f(3), op.f(4), op.f(5)];
        let b = [op.f(6), op.f(7), op.f(8)];
        let ck = (op.arg(9) % 3) as u8;
        ctx.count("n.operator_layer_evaluations");
        ctx.cell("datum", &[form, order_class(t1, t2), mag_class(t1), mag_class(t2)]);
        ctx.sig((form as u64) << 8 | (order_class(t1, t2) as u64) << 4 | mag_class(t1) as u64);
        if t1 != t2 {
            ctx.nontrivial = true;
        }
        let tmax = t1.max(t2);
        match op.code.as_str() {
            "BIN" => {
                // form = group*16 + ty*4 + op
                let group = (form / 16) as u8 % 4;
                let ty = TYS[(form / 4 % 4) as usize];
                let o = (form % 4) as usize;
                if !allowed(ty, o) {
                    continue;
                }
                let r = guarded(|| eval_form(group, ty, o, t1, t2, &a, &b, ck));
                let (gt, gv) = match r {
                    Ok(x) => x,
                    Err(p) => {
                        ctx.violate("C03", "panic", "datum_operator", format!("op {}: operator form {} panicked: {:?}", oi, form, p.msg));
                        continue;
                    }
                };
                let want_t = if group < 2 { tmax } else { t1 };
                let want_v = expected_val(ty, o, &a, &b, ck);
                let name = format!("{}{}_{:?}_{}", OPS[o], if group % 2 == 1 { "_assign" } else { "" }, ty, if group < 2 { "datum" } else { "scalar" });
                if gt != want_t {
                    ctx.violate("C03", "operator_time", &name, format!("op {}: {} with times {} and {} gave time {}, expected {}", oi, name, t1, t2, gt, want_t));
                }
                if gv != want_v {
                    ctx.violate("C03", "operator_value", &name, format!("op {}: {} gave {}, expected {}", oi, name, show_val(&gv), show_val(&want_v)));
                }
            }
            "SPC" => {
                // form = is_cmd*8 + sub
                let is_cmd = form / 8 % 2 == 1;
                let sub = (form % 8) as u8;
                let k = b[0];
                let r = guarded(|| eval_special(is_cmd, sub, t1, t2, &a, k, ck));
                let (gt, gv) = match r {
                    Ok(x) => x,
                    Err(p) => {
                        ctx.violate("C03", "panic", "datum_operator", format!("op {}: special form {} panicked: {:?}", oi, form, p.msg));
                        continue;
                    }
                };
                let mul = sub % 4 < 2;
                let f = |x: f32| fbits(if mul { x * k } else { x / k });
                let want_v = if is_cmd { Val::C(ck, f(a[0])) } else { Val::S([f(a[0]), f(a[1]), f(a[2])]) };
                let want_t = if sub < 4 { tmax } else { t1 };
                let name = format!("{}{}_{}_{}", if mul { "mul" } else { "div" }, if sub % 2 == 1 { "_assign" } else { "" }, if is_cmd { "Command" } else { "State" }, if sub < 4 { "datum_f32" } else { "f32" });
                if gt != want_t {
                    ctx.violate("C03", "operator_time", &name, format!("op {}: {} with times {} and {} gave time {}, expected {}", oi, name, t1, t2, gt, want_t));
                }
                if gv != want_v {
                    ctx.violate("C03", "operator_value", &name, format!("op {}: {} gave {}, expected {}", oi, name, show_val(&gv), show_val(&want_v)));
                }
            }
            "UNA" => {
                // 0 neg f32, 1 neg Q, 2 neg State, 3 neg Command, 4 not bool
                let (gt, gv) = match form {
                    0 => dn(-Datum::new(Time(t1), a[0])),
                    1 => dn(-Datum::new(Time(t1), q(a[0]))),
                    2 => dn(-Datum::new(Time(t1), st(&a))),
                    3 => dn(-Datum::new(Time(t1), cmd_from(ck, a[0].to_bits()))),
                    _ => dn(!Datum::new(Time(t1), a[0] > 0.0)),
                };
                let want_v = match form {
                    0 => Val::F(fbits(-a[0])),
                    1 => Val::Q(fbits(-a[0]), if cfg!(feature = "v_nodim") { 0 } else { 1 }, 0),
                    2 => Val::S([fbits(-a[0]), fbits(-a[1]), fbits(-a[2])]),
                    3 => Val::C(ck, fbits(-a[0])),
                    _ => Val::B(!(a[0] > 0.0)),
                };
                if gt != t1 || gv != want_v {
                    ctx.violate("C03", "operator_unary", "neg_not", format!("op {}: unary form {} on (t={}) gave (t={}, {}), expected (t={}, {})", oi, form, t1, gt, show_val(&gv), t1, show_val(&want_v)));
                }
            }
            "HLP" => {
                let d1 = Datum::new(Time(t1), a[0]);
                let d2 = Datum::new(Time(t2), b[0]);
                match form {
                    0 => {
                        let mut x = d1;
                        let replaced = x.replace_if_older_than(d2);
                        let want = t2 > t1;
                        if replaced != want || x != if want { d2 } else { d1 } {
                            ctx.violate("C03", "replace_helper", "replace_if_older_than", format!("op {}: slot t={} candidate t={}: returned {}, slot now t={}", oi, t1, t2, replaced, x.time.0));
                        }
                    }
                    1 | 2 => {
                        // slot present
                        let mut x = Some(d1);
                        let replaced = if form == 1 { x.replace_if_none_or_older_than(d2) } else { x.replace_if_none_or_older_than_option(Some(d2)) };
                        let want = t2 > t1;
                        if replaced != want || x != Some(if want { d2 } else { d1 }) {
                            ctx.violate("C03", "replace_helper", "replace_if_none_or_older_than", format!("op {}: slot t={} candidate t={}: returned {}, slot now {:?}", oi, t1, t2, replaced, x.map(|d| d.time.0)));
                        }
                    }
                    3 | 4 => {
                        // empty slot
                        let mut x: Option<Datum<f32>> = None;
                        let replaced = if form == 3 { x.replace_if_none_or_older_than(d2) } else { x.replace_if_none_or_older_than_option(Some(d2)) };
                        if !replaced || x != Some(d2) {
                            ctx.violate("C03", "replace_helper", "replace_if_none", format!("op {}: empty slot, candidate t={}: returned {}", oi, t2, replaced));
                        }
                    }
                    5 => {
                        let mut x = if a[1] > 0.0 { Some(d1) } else { None };
                        let before = x;
                        let replaced = x.replace_if_none_or_older_than_option(None);
                        if replaced || x != before {
                            ctx.violate("C03", "replace_helper", "replace_with_none", format!("op {}: replacing with None returned {} / changed the slot", oi, replaced));
                        }
                    }
                    _ => {
                        let r = latest(d1, d2);
                        let is_cand = r == d1 || r == d2;
                        if !is_cand || r.time.0 < tmax {
                            ctx.violate("C03", "latest", "latest", format!("op {}: latest(t={}, t={}) returned t={}", oi, t1, t2, r.time.0));
                        }
                    }
                }
            }
            _ => {}
        }
        ctx.trace(&format!("{} {} {:?}", oi, op.code, op.a));
    }
}

fn stamp(rng: &mut Rng) -> i64 {
    match rng.below(10) {
        0 => i64::MIN,
        1 => i64::MAX,
        2 => i64::MIN + 1,
        3 => i64::MAX - 1,
        4 => 0,
        5 => -1,
        6 => 1,
        7 => rng.range(-1_000_000, 1_000_000),
        _ => rng.next_u64() as i64,
    }
}

pub fn generate(prop: &str, tier: Tier, rng: &mut Rng, seed: u64, run: u64) -> Plan {
    let mut plan = Plan::new("datum", prop, seed, run);
    let n = if tier == Tier::Quick { 8 } else { 16 };
    for j in 0..n {
        let t1 = stamp(rng);
        let t2 = match rng.below(5) {
            0 => t1,
            1 => t1.saturating_add(1),
            2 => t1.saturating_sub(1),
            _ => stamp(rng),
        };
        let mut v = [0i64; 6];
        for x in v.iter_mut() {
            let mut f = rng.moderate_f32();
            if f == 0.0 {
                f = 3.0;
            }
            *x = fb(f);
        }
        let ck = rng.below(3) as i64;
        // cycle through every form deterministically, plus random ones
        let pick = (run * n as u64 + j as u64) % 120;
        let (code, form) = match pick {
            0..=63 => ("BIN", pick as i64),
            64..=79 => ("SPC", pick as i64 - 64),
            80..=84 => ("UNA", pick as i64 - 80),
            85..=91 => ("HLP", pick as i64 - 85),
            _ => match rng.below(4) {
                0 => ("BIN", rng.below(64) as i64),
                1 => ("SPC", rng.below(16) as i64),
                2 => ("HLP", rng.below(7) as i64),
                _ => ("UNA", rng.below(5) as i64),
            },
        };
        plan.push(code, &[form, t1, t2, v[0], v[1], v[2], v[3], v[4], v[5], ck]);
    }
    plan
}

pub fn simplify(_plan: &Plan) -> Vec<Plan> {
    Vec::new()
}
