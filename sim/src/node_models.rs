//! Executable reference models for the stateful streams (C04, C05, C10, C11, C12).
//! Each model consumes exactly what the node's leaf inputs delivered at each op and
//! predicts the category, timestamp, unit and (with a forward error bound) the value
//! of the node's output. Models never look at rrtk's behaviour, except for optional
//! *re-anchoring* on an output that has just been verified.

use crate::approx::{self, Approx, U};
use crate::plan::Plan;
use crate::vals::*;

#[derive(Clone, Copy, Debug)]
pub enum Num {
    A(Approx),
    Exact(u32),
    Unchecked,
}

#[derive(Clone, Debug)]
pub enum ExpVal {
    F(Num),
    Q(Num, (i8, i8)),
    S([Num; 3]),
}

#[derive(Clone, Debug)]
pub enum Exp {
    Err(Er),
    None,
    Some(i64, ExpVal),
    /// nothing asserted (outside the property's domain)
    Any,
}

#[derive(Clone, Debug)]
pub struct Step {
    pub out: Exp,
    /// expected return of update()/set(): None = not asserted
    pub ret: Option<Option<Er>>,
    /// this op was a reset event for the node (restart equivalence applies from here)
    pub reset: bool,
    /// coarse model-state class for history signatures
    pub class: u8,
}

pub fn fval(o: &Out) -> Option<(i64, f32)> {
    match o {
        Out::Some(t, Val::F(b)) => Some((*t, f32::from_bits(*b))),
        Out::Some(t, Val::Q(b, _, _)) => Some((*t, f32::from_bits(*b))),
        _ => None,
    }
}
pub fn qunit(o: &Out) -> (i8, i8) {
    match o {
        Out::Some(_, Val::Q(_, m, s)) => (*m, *s),
        _ => (0, 0),
    }
}

/// f32 seconds exactly as `f32::from(Quantity::from(Time(ns)))` computes them.
pub fn secs_f32(ns: i64) -> f32 {
    ns as f32 / 1_000_000_000.0
}

fn ex(x: f32) -> Approx {
    Approx::exact(x)
}

// ------------------------------------------------------------------ PID (C04)

pub struct PidModel {
    kp: f32,
    ki: f32,
    kd: f32,
    sp: f32,
    prev: Option<(i64, Approx)>,
    terms: Vec<Approx>,
    poison: bool,
    cached: Exp,
}
impl PidModel {
    pub fn with(kp: f32, ki: f32, kd: f32, sp: f32) -> Self {
        PidModel { kp, ki, kd, sp, prev: None, terms: Vec::new(), poison: false, cached: Exp::None }
    }
    pub fn new(plan: &Plan) -> Self {
        PidModel {
            kp: plan.getf("kp"),
            ki: plan.getf("ki"),
            kd: plan.getf("kd"),
            sp: plan.getf("setpoint"),
            prev: None,
            terms: Vec::new(),
            poison: false,
            cached: Exp::None,
        }
    }
    fn reset(&mut self) {
        self.prev = None;
        self.terms.clear();
        self.poison = false;
    }
    pub fn update(&mut self, input: &Out) -> Step {
        match input {
            Out::None => {
                self.reset();
                self.cached = Exp::None;
                Step { out: Exp::None, ret: Some(None), reset: true, class: 0 }
            }
            Out::Err(e) => {
                self.reset();
                self.cached = Exp::Err(*e);
                Step { out: Exp::Err(*e), ret: Some(Some(*e)), reset: true, class: 1 }
            }
            Out::Some(..) => {
                let (t, x) = fval(input).unwrap();
                let e = ex(self.sp).sub(ex(x));
                let (drv, class) = match self.prev {
                    Some((tp, ep)) => {
                        if t <= tp {
                            self.poison = true;
                            (Approx::zero(), 3)
                        } else {
                            let dt = Approx::seconds(t - tp);
                            let drv = e.sub(ep).div(dt);
                            let add = dt.mul(ep.add(e)).half();
                            self.terms.push(add);
                            (drv, 3)
                        }
                    }
                    None => (Approx::zero(), 2),
                };
                let int = approx::sum(&self.terms);
                let out = approx::sum(&[
                    ex(self.kp).mul(e),
                    ex(self.ki).mul(int),
                    ex(self.kd).mul(drv),
                ]);
                self.prev = Some((t, e));
                let num = if self.poison { Num::Unchecked } else { Num::A(out) };
                self.cached = Exp::Some(t, ExpVal::F(num));
                Step { out: self.cached.clone(), ret: Some(None), reset: false, class }
            }
        }
    }
    pub fn current(&self) -> Exp {
        self.cached.clone()
    }
}

// ------------------------------------------------------------------ CommandPID (C11)

#[derive(Clone)]
struct CU1 {
    out_int: Approx,
    err_int: Approx,
    oii: Option<Approx>,
}
#[derive(Clone)]
enum CStat {
    Fresh,
    Err(Er),
    Run { t: i64, out: Approx, err: Approx, u1: Option<CU1> },
}
pub struct CpidModel {
    gains: [[f32; 3]; 3],
    pub cmd: (u8, f32),
    stat: CStat,
    poison: bool,
    pub last_request: Option<(u8, u32)>,
}
impl CpidModel {
    pub fn new(plan: &Plan, cmd: (u8, u32)) -> Self {
        let g = |k: &str| plan.getf(k);
        CpidModel {
            gains: [
                [g("pkp"), g("pki"), g("pkd")],
                [g("vkp"), g("vki"), g("vkd")],
                [g("akp"), g("aki"), g("akd")],
            ],
            cmd: (cmd.0, f32::from_bits(cmd.1)),
            stat: CStat::Fresh,
            poison: false,
            last_request: None,
        }
    }
    fn eval(&self, e: Approx, i: Approx, d: Approx) -> Approx {
        let g = self.gains[self.cmd.0 as usize];
        approx::sum(&[ex(g[0]).mul(e), ex(g[1]).mul(i), ex(g[2]).mul(d)])
    }
    /// returns true when the command differs (reset)
    pub fn set(&mut self, kind: u8, bits: u32) -> bool {
        self.last_request = Some((kind, bits));
        let v = f32::from_bits(bits);
        let differs = !(kind == self.cmd.0 && v == self.cmd.1);
        if differs {
            self.stat = CStat::Fresh;
            self.poison = false;
            self.cmd = (kind, v);
        }
        differs
    }
    pub fn reset(&mut self) {
        self.stat = CStat::Fresh;
        self.poison = false;
    }
    pub fn current(&self) -> Exp {
        match &self.stat {
            CStat::Err(e) => Exp::Err(*e),
            CStat::Fresh => Exp::None,
            CStat::Run { t, out, u1, .. } => {
                let n = |a: Approx| if self.poison { Num::Unchecked } else { Num::A(a) };
                match self.cmd.0 {
                    0 => Exp::Some(*t, ExpVal::F(n(*out))),
                    1 => match u1 {
                        Some(u) => Exp::Some(*t, ExpVal::F(n(u.out_int))),
                        None => Exp::None,
                    },
                    _ => match u1 {
                        Some(CU1 { oii: Some(x), .. }) => Exp::Some(*t, ExpVal::F(n(*x))),
                        _ => Exp::None,
                    },
                }
            }
        }
    }
    /// `fol`: what the followed getter delivers (None when not following).
    pub fn update(&mut self, fol: Option<&Out>, input: &Out) -> Step {
        let mut reset = false;
        if let Some(f) = fol {
            match f {
                Out::Err(e) => {
                    return Step { out: self.current(), ret: Some(Some(*e)), reset: false, class: 9 };
                }
                Out::Some(_, Val::C(k, b)) => {
                    if self.set(*k, *b) {
                        reset = true;
                    }
                }
                _ => {}
            }
        }
        match input {
            Out::None => {
                self.reset();
                Step { out: Exp::None, ret: Some(None), reset: true, class: 0 }
            }
            Out::Err(e) => {
                self.stat = CStat::Err(*e);
                self.poison = false;
                Step { out: Exp::Err(*e), ret: Some(Some(*e)), reset: true, class: 1 }
            }
            Out::Some(t, Val::S(s)) => {
                let t = *t;
                let comp = f32::from_bits(s[self.cmd.0 as usize]);
                let e = ex(self.cmd.1).sub(ex(comp));
                let class;
                let new = match self.stat.clone() {
                    CStat::Fresh | CStat::Err(_) => {
                        class = 2;
                        let out = self.eval(e, Approx::zero(), Approx::zero());
                        CStat::Run { t, out, err: e, u1: None }
                    }
                    CStat::Run { t: t0, out: out0, err: e0, u1 } => {
                        if t <= t0 {
                            self.poison = true;
                        }
                        let dt = if t > t0 { Approx::seconds(t - t0) } else { Approx::new(1.0, 0.0) };
                        let drv = e.sub(e0).div(dt);
                        let ia = e0.add(e).half().mul(dt);
                        match u1 {
                            None => {
                                class = 3;
                                let out = self.eval(e, ia, drv);
                                let out_int = out0.add(out).half().mul(dt);
                                CStat::Run {
                                    t,
                                    out,
                                    err: e,
                                    u1: Some(CU1 { out_int, err_int: ia, oii: None }),
                                }
                            }
                            Some(u) => {
                                class = 4;
                                let err_int = u.err_int.add(ia);
                                let out = self.eval(e, err_int, drv);
                                let out_int = u.out_int.add(out0.add(out).half().mul(dt));
                                let add = u.out_int.add(out_int).half().mul(dt);
                                let oii = match u.oii {
                                    None => add,
                                    Some(x) => x.add(add),
                                };
                                CStat::Run {
                                    t,
                                    out,
                                    err: e,
                                    u1: Some(CU1 { out_int, err_int, oii: Some(oii) }),
                                }
                            }
                        }
                    }
                };
                self.stat = new;
                Step { out: self.current(), ret: Some(None), reset, class }
            }
            _ => Step { out: Exp::Any, ret: None, reset: false, class: 8 },
        }
    }
}

// ------------------------------------------------------------------ EWMA (C12)

pub struct EwmaModel {
    s: f32,
    quantity: bool,
    /// outside the property's domain (timestamp went backwards, non-finite sample) until the next error reset
    poison: bool,
    /// cached category: 0 none, 1 err, 2 some
    pub cached: Exp,
    prev: Option<(i64, Approx)>,
    pub lo: f32,
    pub hi: f32,
    pub first: bool,
    pub unit: (i8, i8),
}
impl EwmaModel {
    pub fn with(s: f32, quantity: bool) -> Self {
        EwmaModel { s, quantity, poison: false, cached: Exp::None, prev: None, lo: 0.0, hi: 0.0, first: false, unit: (0, 0) }
    }
    pub fn new(plan: &Plan, quantity: bool) -> Self {
        EwmaModel {
            s: plan.getf("smoothing"),
            quantity,
            poison: false,
            cached: Exp::None,
            prev: None,
            lo: 0.0,
            hi: 0.0,
            first: false,
            unit: (0, 0),
        }
    }
    fn wrap(&self, n: Num) -> ExpVal {
        if self.quantity {
            ExpVal::Q(n, self.unit)
        } else {
            ExpVal::F(n)
        }
    }
    /// `prev_impl`: the implementation's own previous output when it was a value
    /// (verified at the previous step) — the model is anchored on it.
    pub fn update(&mut self, input: &Out, prev_impl: Option<f32>) -> Step {
        self.first = false;
        match input {
            Out::Err(e) => {
                self.prev = None;
                self.poison = false;
                self.cached = Exp::Err(*e);
                Step { out: self.cached.clone(), ret: None, reset: true, class: 1 }
            }
            Out::None => {
                if matches!(self.cached, Exp::Err(_)) {
                    self.cached = Exp::None;
                    self.prev = None;
                }
                Step { out: self.cached.clone(), ret: None, reset: false, class: 0 }
            }
            Out::Some(..) => {
                let (t, x) = fval(input).unwrap();
                self.unit = qunit(input);
                if !x.is_finite() || self.prev.map(|(tp, _)| t < tp).unwrap_or(false) {
                    self.poison = true;
                }
                if self.poison {
                    self.prev = Some((t, ex(if x.is_finite() { x } else { 0.0 })));
                    self.cached = Exp::Some(t, self.wrap(Num::Unchecked));
                    return Step { out: self.cached.clone(), ret: None, reset: false, class: 4 };
                }
                match self.prev {
                    None => {
                        self.first = true;
                        self.prev = Some((t, ex(x)));
                        self.lo = x;
                        self.hi = x;
                        self.cached = Exp::Some(t, self.wrap(Num::Exact(x.to_bits())));
                        Step { out: self.cached.clone(), ret: None, reset: false, class: 2 }
                    }
                    Some((tp, vp_model)) => {
                        let vp = match prev_impl {
                            Some(p) if p.is_finite() => ex(p),
                            _ => vp_model,
                        };
                        let num = if t < tp {
                            Num::Unchecked
                        } else {
                            let base = 1.0f32 - self.s;
                            let dtf = secs_f32(t - tp);
                            let p = (base as f64).powf(dtf as f64);
                            // std's powf is allowed a few ulp
                            let p = Approx::new(p, p.abs() * 8.0 * U + 1e-45);
                            let lam = ex(1.0).sub(p);
                            let one_minus = ex(1.0).sub(lam);
                            let v = vp.mul(one_minus).add(ex(x).mul(lam));
                            self.lo = (vp.v as f32).min(x);
                            self.hi = (vp.v as f32).max(x);
                            self.prev = Some((t, v));
                            Num::A(v)
                        };
                        if t < tp {
                            self.prev = Some((t, ex(x)));
                        }
                        self.cached = Exp::Some(t, self.wrap(num));
                        Step { out: self.cached.clone(), ret: None, reset: false, class: 3 }
                    }
                }
            }
        }
    }
}

// ------------------------------------------------------------------ moving average (C12)

pub struct MaModel {
    w: i64,
    quantity: bool,
    q: Vec<(i64, f32)>,
    pub cached: Exp,
    pub lo: f32,
    pub hi: f32,
    pub unit: (i8, i8),
    poison: bool,
    pub retained: usize,
    pub weights_ok: bool,
}
impl MaModel {
    pub fn new(plan: &Plan, quantity: bool) -> Self {
        MaModel {
            w: plan.get("window"),
            quantity,
            q: Vec::new(),
            cached: Exp::None,
            lo: 0.0,
            hi: 0.0,
            unit: (0, 0),
            poison: false,
            retained: 0,
            weights_ok: true,
        }
    }
    pub fn update(&mut self, input: &Out) -> Step {
        match input {
            Out::Err(e) => {
                self.q.clear();
                self.poison = false;
                self.cached = Exp::Err(*e);
                Step { out: self.cached.clone(), ret: None, reset: true, class: 1 }
            }
            Out::None => {
                if matches!(self.cached, Exp::Err(_)) {
                    self.cached = Exp::None;
                }
                Step { out: self.cached.clone(), ret: None, reset: false, class: 0 }
            }
            Out::Some(..) => {
                let (t, x) = fval(input).unwrap();
                self.unit = qunit(input);
                if let Some((tl, _)) = self.q.last() {
                    if t < *tl {
                        self.poison = true;
                    }
                }
                self.q.push((t, x));
                // (a window that starts before the first representable instant: the statement does not say
                // what the weights are then; the value is not judged)
                let cut = match t.checked_sub(self.w) {
                    Some(c) => c,
                    None => {
                        self.poison = true;
                        i64::MIN
                    }
                };
                while !self.q.is_empty() && self.q[0].0 <= cut && self.q.len() > 1 {
                    self.q.remove(0);
                }
                self.retained = self.q.len();
                let mut terms = Vec::with_capacity(self.q.len());
                let mut start = cut;
                let mut wsum: i64 = 0;
                self.weights_ok = true;
                self.lo = f32::INFINITY;
                self.hi = f32::NEG_INFINITY;
                for (ti, xi) in &self.q {
                    let wi = ti.wrapping_sub(start);
                    if wi < 0 {
                        self.weights_ok = false;
                    }
                    wsum = wsum.wrapping_add(wi);
                    let wf = secs_f32(wi);
                    terms.push(ex(*xi).mul(ex(wf)));
                    start = *ti;
                    self.lo = self.lo.min(*xi);
                    self.hi = self.hi.max(*xi);
                }
                if wsum != self.w {
                    self.weights_ok = false;
                }
                let v = approx::sum(&terms).div(ex(secs_f32(self.w)));
                let num = if self.poison || self.q.is_empty() { Num::Unchecked } else { Num::A(v) };
                let val = if self.quantity { ExpVal::Q(num, self.unit) } else { ExpVal::F(num) };
                self.cached = Exp::Some(t, val);
                let class = if self.q.len() > 1 { 3 } else { 2 };
                Step { out: self.cached.clone(), ret: None, reset: false, class }
            }
        }
    }
}

// ------------------------------------------------------------------ integral / derivative (C10)

pub struct IntDerModel {
    integral: bool,
    prev: Option<(i64, f32)>,
    acc: Option<Approx>,
    pub cached: Exp,
    poison: bool,
}
impl IntDerModel {
    pub fn new(integral: bool) -> Self {
        IntDerModel { integral, prev: None, acc: None, cached: Exp::None, poison: false }
    }
    /// `prev_impl`: implementation's previous output value when it was Some (anchoring).
    pub fn update(&mut self, input: &Out, prev_impl: Option<f32>) -> Step {
        match input {
            Out::Err(e) => {
                self.prev = None;
                self.acc = None;
                self.poison = false;
                self.cached = Exp::Err(*e);
                Step { out: self.cached.clone(), ret: None, reset: true, class: 1 }
            }
            Out::None => {
                self.prev = None;
                self.acc = None;
                self.poison = false;
                self.cached = Exp::None;
                Step { out: Exp::None, ret: None, reset: true, class: 0 }
            }
            Out::Some(..) => {
                let (t, x) = fval(input).unwrap();
                let (um, us) = qunit(input);
                match self.prev {
                    None => {
                        self.prev = Some((t, x));
                        // first sample after a (re)start: no value yet. A cached error
                        // must be gone: the input has recovered.
                        self.cached = Exp::None;
                        Step { out: Exp::None, ret: None, reset: false, class: 2 }
                    }
                    Some((tp, xp)) => {
                        if t <= tp {
                            self.poison = true;
                        }
                        let dt = if t > tp { Approx::seconds(t - tp) } else { Approx::new(1.0, 0.0) };
                        let (v, unit) = if self.integral {
                            let add = dt.mul(ex(xp).add(ex(x))).half();
                            let base = match (self.acc, prev_impl) {
                                (Some(_), Some(p)) if p.is_finite() => Some(ex(p)),
                                (a, _) => a,
                            };
                            let v = match base {
                                Some(a) => add.add(a),
                                None => add,
                            };
                            self.acc = Some(v);
                            (v, (um, us + 1))
                        } else {
                            (ex(x).sub(ex(xp)).div(dt), (um, us - 1))
                        };
                        self.prev = Some((t, x));
                        let num = if self.poison { Num::Unchecked } else { Num::A(v) };
                        self.cached = Exp::Some(t, ExpVal::Q(num, unit));
                        Step { out: self.cached.clone(), ret: None, reset: false, class: 3 }
                    }
                }
            }
        }
    }
}

// ------------------------------------------------------------------ to-state converters (C10)

#[derive(Clone, Copy, PartialEq)]
pub enum ToState {
    A2S,
    V2S,
    P2S,
}
pub struct ToStateModel {
    which: ToState,
    n: u32,
    t: i64,
    // a2s: acc, vel, pos ; v2s: vel, acc, pos ; p2s: pos, vel, acc
    a: Approx,
    b: Approx,
    c: Approx,
    poison: bool,
    pub cached: Exp,
}
impl ToStateModel {
    pub fn new(which: ToState) -> Self {
        ToStateModel {
            which,
            n: 0,
            t: 0,
            a: Approx::zero(),
            b: Approx::zero(),
            c: Approx::zero(),
            poison: false,
            cached: Exp::None,
        }
    }
    pub fn required_unit(&self) -> (i8, i8) {
        match self.which {
            ToState::A2S => (1, -2),
            ToState::V2S => (1, -1),
            ToState::P2S => (1, 0),
        }
    }
    /// Anchor the model on a verified implementation state.
    pub fn anchor(&mut self, s: [f32; 3]) {
        if !(s[0].is_finite() && s[1].is_finite() && s[2].is_finite()) {
            return;
        }
        match self.which {
            ToState::A2S => {
                self.b = ex(s[1]);
                self.c = ex(s[0]);
            }
            ToState::V2S => {
                self.c = ex(s[0]);
            }
            ToState::P2S => {
                self.b = ex(s[1]);
            }
        }
    }
    pub fn update(&mut self, input: &Out) -> Step {
        match input {
            Out::Err(_) => {
                self.n = 0;
                self.poison = false;
                self.cached = Exp::None;
                // get() of the converters never reports an error; the state is cleared
                Step { out: Exp::None, ret: None, reset: true, class: 1 }
            }
            Out::None => Step { out: self.cached.clone(), ret: None, reset: false, class: 0 },
            Out::Some(..) => {
                let (t, x) = fval(input).unwrap();
                let x = ex(x);
                if self.n == 0 {
                    self.n = 1;
                    self.t = t;
                    self.a = x;
                    self.cached = Exp::None;
                    return Step { out: Exp::None, ret: None, reset: false, class: 2 };
                }
                if t <= self.t {
                    self.poison = true;
                }
                let dt = if t > self.t { Approx::seconds(t - self.t) } else { Approx::new(1.0, 0.0) };
                let mut ready = false;
                match self.which {
                    ToState::A2S => {
                        let vel_add = self.a.add(x).half().mul(dt);
                        if self.n == 1 {
                            self.b = vel_add;
                        } else {
                            let new_vel = self.b.add(vel_add);
                            let pos_add = self.b.add(new_vel).half().mul(dt);
                            self.c = if self.n == 2 { pos_add } else { self.c.add(pos_add) };
                            self.b = new_vel;
                            ready = true;
                        }
                        self.a = x;
                    }
                    ToState::V2S => {
                        let acc = x.sub(self.a).div(dt);
                        let pos_add = self.a.add(x).half().mul(dt);
                        self.c = if self.n == 1 { pos_add } else { self.c.add(pos_add) };
                        self.b = acc;
                        self.a = x;
                        ready = true;
                    }
                    ToState::P2S => {
                        let vel = x.sub(self.a).div(dt);
                        if self.n >= 2 {
                            self.c = vel.sub(self.b).div(dt);
                            ready = true;
                        }
                        self.b = vel;
                        self.a = x;
                    }
                }
                self.n = (self.n + 1).min(3);
                self.t = t;
                if ready {
                    let n = |a: Approx| if self.poison { Num::Unchecked } else { Num::A(a) };
                    let s = match self.which {
                        ToState::A2S => [n(self.c), n(self.b), n(self.a)],
                        ToState::V2S => [n(self.c), n(self.a), n(self.b)],
                        ToState::P2S => [n(self.a), n(self.b), n(self.c)],
                    };
                    self.cached = Exp::Some(t, ExpVal::S(s));
                } else {
                    self.cached = Exp::None;
                }
                Step { out: self.cached.clone(), ret: None, reset: false, class: 2 + self.n as u8 }
            }
        }
    }
}

// ------------------------------------------------------------------ converters / freeze (C05)

pub fn convert_model(kind: &str, plan: &Plan, input: &Out) -> Exp {
    match input {
        Out::Err(e) => Exp::Err(*e),
        Out::None => Exp::None,
        Out::Some(t, v) => {
            let bits = match v {
                Val::F(b) => *b,
                Val::Q(b, _, _) => *b,
                _ => 0,
            };
            if kind == "f2q" {
                Exp::Some(
                    *t,
                    ExpVal::Q(Num::Exact(bits), (plan.get("um") as i8, plan.get("us") as i8)),
                )
            } else {
                Exp::Some(*t, ExpVal::F(Num::Exact(bits)))
            }
        }
    }
}

pub struct FreezeModel {
    pub cached: Exp,
    /// false after a condition error until the next false/absent update
    pub known: bool,
}
impl FreezeModel {
    pub fn new() -> Self {
        FreezeModel { cached: Exp::None, known: true }
    }
    pub fn update(&mut self, cond: &Out, input: &Out) -> Step {
        match cond {
            Out::Err(_) => {
                self.known = false;
                self.cached = Exp::Any;
                Step { out: Exp::Any, ret: None, reset: false, class: 1 }
            }
            Out::None => {
                self.known = true;
                self.cached = Exp::None;
                Step { out: Exp::None, ret: None, reset: false, class: 0 }
            }
            Out::Some(_, Val::B(false)) => {
                self.known = true;
                self.cached = match input {
                    Out::Err(e) => Exp::Err(*e),
                    Out::None => Exp::None,
                    Out::Some(t, Val::F(b)) => Exp::Some(*t, ExpVal::F(Num::Exact(*b))),
                    _ => Exp::Any,
                };
                Step { out: self.cached.clone(), ret: None, reset: false, class: 2 }
            }
            _ => Step { out: self.cached.clone(), ret: None, reset: false, class: 3 },
        }
    }
}
