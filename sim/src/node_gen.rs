//! Plan generators for the W-node world. Every choice comes from the run's PRNG and is
//! written into the plan; nothing here looks at rrtk.

use crate::core::Tier;
use crate::plan::{fb, Plan};
use crate::rng::Rng;

const SPECIAL_DT: [i64; 7] = [
    1_000,
    1_000_000,
    1_000_000_000,
    16_777_215,
    16_777_216,
    16_777_217,
    3_600_000_000_000,
];

struct TimeGen {
    t: i64,
    lo: i64,
    hi: i64,
    last_dt: i64,
    /// only intervals inside [lo, hi] (no special or related intervals)
    plain: bool,
    /// when non-zero every interval is a small whole multiple of this many nanoseconds (a fixed-rate
    /// loop): sample ages then land exactly ON window and period boundaries
    grid: i64,
}
impl TimeGen {
    fn new(rng: &mut Rng) -> Self {
        let t = match rng.below(5) {
            0 => 0,
            1 => rng.range(-1_000_000_000_000, 1_000_000_000_000),
            2 => -(1i64 << 40) + rng.range(0, 1 << 20),
            3 => rng.range(0, 1i64 << 41),
            // far from zero: beyond 2^53 ns (where f64 no longer holds every nanosecond), nanoseconds
            // since the Unix epoch, 2^62
            _ => match rng.below(4) {
                0 => (1i64 << 53) + rng.range(0, 1 << 30),
                1 => 1_700_000_000_000_000_000 + rng.range(0, 1_000_000_000_000),
                2 => 1i64 << 62,
                _ => {
                    // ... or at the very first representable instant (a stamp a "no sample yet" sentinel would pick)
                    if rng.chance(0.4) {
                        i64::MIN
                    } else {
                        -(1i64 << 60) - rng.range(0, 1 << 30)
                    }
                }
            },
        };
        let (lo, hi) = match rng.below(5) {
            0 => (1_000, 14_400_000_000_000),
            1 => (1_000, 1_000_000),
            2 => (1_000_000, 1_000_000_000),
            3 => (100_000_000, 10_000_000_000),
            _ => (1_000_000_000, 14_400_000_000_000),
        };
        TimeGen { t, lo, hi, last_dt: 0, plain: false, grid: 0 }
    }
    fn step(&mut self, rng: &mut Rng) -> i64 {
        if self.grid > 0 {
            let dt = self.grid * *rng.pick(&[1, 1, 1, 2, 3]);
            self.last_dt = dt;
            self.t += dt;
            return self.t;
        }
        if self.plain {
            let dt = rng.log_uniform(self.lo, self.hi);
            self.last_dt = dt;
            self.t += dt;
            return self.t;
        }
        let mut dt = if rng.chance(0.08) {
            *rng.pick(&SPECIAL_DT)
        } else if rng.chance(0.02) {
            // a long silence: a robot parked overnight, over a weekend, for a season ("increasing
            // timestamps" puts no ceiling on the interval)
            match rng.below(6) {
                0 => 86_400_000_000_000 + rng.range(0, 1_000_000_000),
                1 => 2 * 86_400_000_000_000,
                2 => 7 * 86_400_000_000_000 + rng.range(-1_000_000, 1_000_000),
                3 => 30 * 86_400_000_000_000,
                4 => 365 * 86_400_000_000_000,
                _ => rng.log_uniform(14_400_000_000_000, 3_000 * 86_400_000_000_000),
            }
        } else {
            rng.log_uniform(self.lo, self.hi)
        };
        // intervals related to the previous one by a power of two (equal low 32 / 31 / 24 / 16 bits):
        // what a cache or a narrowing cast keyed on the interval would confuse
        if self.last_dt > 0 && rng.chance(0.03) {
            let k = 1i64 << *rng.pick(&[32, 32, 31, 24, 16, 33]);
            let cand = if rng.chance(0.7) { self.last_dt + k } else { self.last_dt - k };
            if cand > 0 {
                dt = cand;
            }
        }
        self.last_dt = dt;
        self.t += dt;
        self.t
    }
}

fn value_gen(rng: &mut Rng, scale: f32, one_signed: bool, constant: Option<f32>) -> f32 {
    if let Some(c) = constant {
        return c;
    }
    let v = rng.moderate_f32() * scale;
    if one_signed {
        v.abs() + scale * 0.125
    } else {
        v
    }
}

/// the bit pattern of a float 1..3 representable values away from the given one (itself if that
/// would leave the normal range; zero moves to a tiny value)
fn ulp_neighbour(rng: &mut Rng, bits: i64) -> i64 {
    let x = f32::from_bits(bits as u32);
    if x == 0.0 {
        return fb(*rng.pick(&[1e-8f32, -1e-8, 1e-20]));
    }
    let k = rng.range(1, 3) as u32;
    let b = if rng.chance(0.5) { (bits as u32).wrapping_add(k) } else { (bits as u32).wrapping_sub(k) };
    if f32::from_bits(b).is_normal() {
        b as i64
    } else {
        bits
    }
}

fn fault_rate(rng: &mut Rng, structural: bool) -> f64 {
    if structural {
        *rng.pick(&[0.1, 0.25, 0.4, 0.6])
    } else {
        *rng.pick(&[0.0, 0.0, 0.02, 0.1, 0.3])
    }
}

/// returns true when the fault was an error (a reset for every stateful stream)
fn push_fault(plan: &mut Plan, rng: &mut Rng) -> bool {
    match rng.below(5) {
        0 | 1 => {
            plan.push("N", &[]);
            return false;
        }
        2 => plan.push("E", &[1]),
        3 => plan.push("E", &[if rng.chance(0.5) { 1 } else { 3 }]),
        _ => plan.push("E", &[2]),
    }
    true
}

pub const C05_KINDS: [&str; 14] = [
    "pid", "cpid", "ewma_f", "ewma_q", "ma_f", "ma_q", "integral", "derivative", "a2s", "v2s",
    "p2s", "f2q", "q2f", "freeze",
];

fn required_unit(kind: &str) -> Option<(i64, i64)> {
    match kind {
        "a2s" => Some((1, -2)),
        "v2s" => Some((1, -1)),
        "p2s" => Some((1, 0)),
        _ => None,
    }
}

fn header_for(plan: &mut Plan, kind: &str, rng: &mut Rng) {
    plan.sets("kind", kind);
    match kind {
        "pid" => {
            let g = |rng: &mut Rng| if rng.chance(0.15) { 0.0 } else { rng.moderate_f32() };
            let kp = g(rng);
            let ki = g(rng);
            let kd = g(rng);
            plan.setf("kp", kp);
            plan.setf("ki", ki);
            plan.setf("kd", kd);
            plan.setf("setpoint", rng.moderate_f32());
        }
        "cpid" => {
            for k in ["pkp", "pki", "pkd", "vkp", "vki", "vkd", "akp", "aki", "akd"] {
                let v = if rng.chance(0.15) { 0.0 } else { rng.moderate_f32() };
                plan.setf(k, v);
            }
            plan.set("cmd_kind", rng.below(3) as i64);
            plan.set("cmd_bits", fb(rng.moderate_f32()));
        }
        "ewma_f" | "ewma_q" => {
            let s = match rng.below(6) {
                0 => 0.0,
                1 => 1.0,
                2 => 1e-6,
                3 => 1.0 - 1e-6,
                _ => rng.unit() as f32,
            };
            plan.setf("smoothing", s);
        }
        "ma_f" | "ma_q" => {
            let w = if rng.chance(0.1) { 1 } else { rng.log_uniform(1, 14_400_000_000_000) };
            plan.set("window", w);
        }
        _ => {}
    }
    // unit of quantity inputs
    let (um, us) = match required_unit(kind) {
        Some(u) => u,
        None => (rng.range(-3, 3), rng.range(-3, 3)),
    };
    plan.set("um", um);
    plan.set("us", us);
    // in a fifth of the runs the caller itself keeps looking at the node's inputs (shared borrows of the
    // very References the node reads through are alive during every update and read)
    plan.set("hold_inputs", rng.chance(0.2) as i64);
}

/// The generic history generator. `profile`:
///   0 structural (C05): arbitrary interleavings, dups, stalls, extra gets
///   1 numeric strictly-increasing (C04, C10, C11)
///   2 numeric non-decreasing with repeated timestamps (C12)
pub fn gen_node(prop: &str, kind: &str, profile: u8, tier: Tier, rng: &mut Rng, seed: u64, run: u64) -> Plan {
    let mut plan = Plan::new("node", prop, seed, run);
    header_for(&mut plan, kind, rng);
    let maxlen = match (tier, profile) {
        (Tier::Quick, 0) => 20,
        (Tier::Quick, _) => 24,
        (Tier::Thorough, 0) => 48,
        (Tier::Thorough, _) => 64,
    };
    let mut nev = rng.range(1, maxlen) as usize;
    // long histories (the statements have no length limit): a few runs of every kind go to 320 events,
    // and for the moving averages the window then holds hundreds of samples
    let long_run = rng.chance(0.02);
    if long_run {
        nev = rng.range(130, 320) as usize;
    }
    let rate = fault_rate(rng, profile == 0);
    let mut scale = *rng.pick(&[1.0f32, 1.0, 0.125, 16.0, 256.0]);
    // "all finite gains" / unbounded values: a few controller runs live at 1e27 with gains around
    // 1e-24 (outputs stay moderate; internal integrals pass 1e30). Intervals between 1 ms and 100 s keep
    // every intermediate inside the f32 range.
    let huge = matches!(kind, "pid" | "cpid") && rng.chance(0.03);
    if huge {
        scale *= 1e27;
        for k in ["kp", "ki", "kd", "pkp", "pki", "pkd", "vkp", "vki", "vkd", "akp", "aki", "akd"] {
            if plan.h.contains_key(k) {
                let g = plan.getf(k) * 1e-24;
                plan.setf(k, g);
            }
        }
        if kind == "pid" {
            let sp = plan.getf("setpoint") * 1e27;
            plan.setf("setpoint", sp);
        } else {
            let c = f32::from_bits(plan.get("cmd_bits") as u32) * 1e27;
            plan.set("cmd_bits", fb(c));
        }
    }
    let one_signed = rng.chance(0.5);
    plan.set("one_signed", one_signed as i64);
    let constant = if profile == 2 && rng.chance(0.15) { Some(rng.moderate_f32() * scale) } else { None };
    // "ulp walk": consecutive samples are neighbouring floats (1..3 ulps apart), and the reference
    // they are compared with (setpoint / command) is often 0 so that the error is exactly the sample
    // "ramp": a signal that is exactly linear in time - equal steps on a fixed-rate grid, or slope x
    // whole seconds on an irregular whole-second grid - so that consecutive difference quotients are
    // exactly equal (a mechanism cruising at constant speed read by a fixed-rate loop)
    let ramp = if rng.chance(0.06) { rng.range(1, 2) } else { 0 };
    let ramp_dt: i64 = *rng.pick(&[1_000_000i64, 10_000_000, 1_000_000_000, 2_000_000_000, 250_000_000, 1 << 30]);
    let ramp_inc: f32 = *rng.pick(&[1.0f32, 2.0, -3.0, 0.5, 0.125, 7.0]) * scale;
    let ramp_base: f32 = rng.range(-8, 8) as f32 * scale;
    let mut ramp_k: i64 = 0;
    let ulp_walk = ramp == 0 && rng.chance(0.08);
    let zero_ref = ulp_walk && rng.chance(0.6);
    if zero_ref {
        match kind {
            "pid" => plan.setf("setpoint", 0.0),
            "cpid" => plan.set("cmd_bits", fb(0.0)),
            _ => {}
        }
    }
    // "hover": a loop that has settled - every sample sits on the (non-zero) reference or 1..3
    // representable values next to it, sample after sample (a quantised sensor one step off target)
    let hover_ref: Option<f32> = if ulp_walk && !zero_ref && rng.chance(0.7) {
        match kind {
            "pid" => Some(plan.getf("setpoint")),
            "cpid" => Some(f32::from_bits(plan.get("cmd_bits") as u32)),
            _ => None,
        }
        .filter(|r| r.is_normal())
    } else {
        None
    };
    let hover = |rng: &mut Rng, r: f32| -> f32 {
        let k = *rng.pick(&[0u32, 1, 1, 1, 1, 2, 3]);
        let b = if rng.chance(0.5) { r.to_bits() + k } else { r.to_bits() - k };
        if f32::from_bits(b).is_normal() {
            f32::from_bits(b)
        } else {
            r
        }
    };
    let mut prev_v: Option<f32> = None;
    let mut tg = TimeGen::new(rng);
    if matches!(kind, "ma_f" | "ma_q") && rng.chance(0.5) {
        // make window and step comparable so that windows hold several samples
        let w = plan.get("window").max(1);
        tg.lo = (w / 16).max(1);
        tg.hi = (w / 2).max(2).max(tg.lo);
    }
    if matches!(kind, "ma_f" | "ma_q") && !long_run && rng.chance(0.12) {
        // a fixed-rate loop whose period divides the window: the oldest sample is exactly one window old
        // again and again (which side of the boundary it falls on is part of the documented behaviour)
        let step = *rng.pick(&[1i64, 1_000, 1_000_000, 20_000_000, 1_000_000_000]) * rng.range(1, 9);
        plan.set("window", step * rng.range(1, 8));
        tg.grid = step;
    }
    if matches!(kind, "ma_f" | "ma_q") && long_run {
        let w = plan.get("window").max(1000);
        plan.set("window", w);
        tg.lo = (w / 600).max(1);
        tg.hi = (w / 150).max(2).max(tg.lo);
    }
    // C11 and C12 put no lower bound on the sampling interval: a sixth of their runs sample at
    // nanosecond spacing (1 ns .. 1 us, with the f32::EPSILON-second neighbourhood as special values)
    if huge {
        tg.lo = 1_000_000;
        tg.hi = 100_000_000_000;
        tg.plain = true;
        tg.grid = 0;
    }
    // the far end of the time axis: the whole history within a minute or so of i64::MAX (short steps,
    // so that nothing runs off the end); no shift twin there
    let near_max = !huge && rng.chance(0.02);
    if near_max {
        tg.t = i64::MAX - 400_000_000_000 + rng.range(0, 1_000_000_000);
        tg.lo = 1;
        tg.hi = 1_000_000_000;
        tg.plain = true;
        tg.grid = 0;
        if matches!(kind, "ma_f" | "ma_q") {
            // windows from nanoseconds to hours: `stamp + window` would leave the axis, `stamp - window` not
            plan.set("window", rng.log_uniform(1, 14_400_000_000_000));
        }
    }
    // "era": a moving-average history whose two halves lie more than i64::MAX nanoseconds apart (the first
    // far on the negative side of the axis, the second far on the positive side): the distance between two
    // consecutive stamps is then not representable although every stamp and every `stamp - window` is
    let era = !huge && !near_max && !long_run && tg.grid == 0 && matches!(kind, "ma_f" | "ma_q") && rng.chance(0.03);
    let mut era_jumped = false;
    if era {
        tg.t = -(1i64 << 62) - rng.range(0, 1_000_000_000_000);
    }
    // (moving averages compute `now - window`: not started at the very first instant, see DESIGN 10.3)
    if matches!(kind, "ma_f" | "ma_q") && tg.t == i64::MIN {
        tg.t = -(1i64 << 60);
    }
    let mut tiny_dt = false;
    let ramp = if near_max { 0 } else { ramp };
    if !huge && !near_max && matches!(kind, "cpid" | "ewma_f" | "ewma_q") && rng.chance(0.17) {
        tg.lo = 1;
        tg.hi = *rng.pick(&[8, 200, 1_000, 1_000_000]);
        tiny_dt = true;
    }
    let extra_get_p = if profile == 0 { 0.25 } else { 0.05 };
    let ill = prop == "C19ill";
    let misdim_p = if ill {
        0.4
    } else if required_unit(kind).is_some() && prop == "C10" && rng.chance(0.2) {
        0.08
    } else {
        0.0
    };
    let is_cpid = kind == "cpid";
    let prop_is_c11 = prop == "C11";
    let is_freeze = kind == "freeze";
    let mut cur_cmd = (plan.get("cmd_kind"), plan.get("cmd_bits"));
    let mut following = false;
    if is_freeze {
        plan.push("CS", &[tg.t, 0]);
    }
    let mut have_sample = false;
    // samples delivered since the last error event (usize::MAX/2: none yet)
    let mut since_error = usize::MAX / 2;
    for _ in 0..nev {
        // optional command / follow / condition activity
        if is_cpid && rng.chance(0.18) {
            match rng.below(8) {
                0 | 1 => plan.push("SET", &[cur_cmd.0, cur_cmd.1]),
                2 => {
                    // a different value of the same kind: usually unrelated, sometimes the neighbouring
                    // float (a command 1..3 ulps away is a different command)
                    let v = if rng.chance(0.3) { ulp_neighbour(rng, cur_cmd.1) } else { fb(rng.moderate_f32()) };
                    cur_cmd = (cur_cmd.0, v);
                    plan.push("SET", &[cur_cmd.0, cur_cmd.1]);
                }
                3 => {
                    cur_cmd = (rng.below(3) as i64, fb(rng.moderate_f32()));
                    plan.push("SET", &[cur_cmd.0, cur_cmd.1]);
                }
                4 => {
                    if !following {
                        plan.push("FOLLOW", &[]);
                        following = true;
                    } else {
                        plan.push("UNFOLLOW", &[]);
                        following = false;
                    }
                }
                5 => {
                    let c = if rng.chance(0.5) {
                        cur_cmd
                    } else if rng.chance(0.25) {
                        (cur_cmd.0, ulp_neighbour(rng, cur_cmd.1))
                    } else {
                        (rng.below(3) as i64, fb(rng.moderate_f32()))
                    };
                    plan.push("FS", &[tg.t, c.0, c.1]);
                    if following {
                        cur_cmd = c;
                    }
                }
                6 => plan.push("FN", &[]),
                _ => {
                    if rng.chance(0.5) {
                        plan.push("FE", &[rng.range(1, 3)]);
                    } else {
                        plan.push("RESET", &[]);
                    }
                }
            }
        }
        if is_freeze && rng.chance(0.5) {
            match rng.below(8) {
                0 => plan.push("CN", &[]),
                1 => plan.push("CE", &[rng.range(1, 3)]),
                2 | 3 | 4 => plan.push("CS", &[tg.t, 1]),
                _ => plan.push("CS", &[tg.t, 0]),
            }
        }
        // the input event
        let r = rng.unit();
        if r < rate {
            if push_fault(&mut plan, rng) {
                since_error = 0;
            }
        } else if profile == 0 && have_sample && rng.chance(0.08) {
            // dup: update again without a new sample
        } else {
            let t = if profile == 2 && have_sample && rng.chance(0.15) {
                tg.t // repeated timestamp
            } else if have_sample && since_error == 0 && rng.chance(0.2) {
                // the first sample after an error (a reset for every stream, possibly with absent
                // events in between) repeats the stamp of the last sample before it: a restarted
                // stream has no memory, so this is inside every property's domain
                tg.t
            } else if tiny_dt && rng.chance(0.25) {
                tg.t += *rng.pick(&[1, 2, 64, 118, 119, 120, 121, 999]);
                tg.t
            } else if ramp == 1 {
                ramp_k += 1;
                tg.t += ramp_dt;
                tg.t
            } else if ramp == 2 {
                let steps = rng.range(1, 4);
                ramp_k += steps;
                tg.t += steps * 1_000_000_000;
                tg.t
            } else if era && !era_jumped && have_sample && rng.chance(0.3) {
                era_jumped = true;
                tg.t = (1i64 << 62) + rng.range(0, 1_000_000_000);
                tg.t
            } else {
                tg.step(rng)
            };
            have_sample = true;
            since_error += 1;
            let mut v = value_gen(rng, scale, one_signed, constant);
            if ramp != 0 {
                v = ramp_base + ramp_inc * ramp_k as f32;
            }
            // structural profile: a glitched reading now and then (the structural statements - no stale
            // error, reset = restart, get is pure - do not depend on the values being numbers)
            if (profile == 0 || (is_cpid && prop_is_c11)) && ramp == 0 && rng.chance(0.02) {
                v = *rng.pick(&[f32::NAN, f32::INFINITY, f32::NEG_INFINITY]);
            }
            if ulp_walk {
                if let Some(p) = prev_v {
                    if p.is_normal() && rng.chance(0.85) {
                        let k = rng.range(1, 3) as u32;
                        let b = if rng.chance(0.5) { p.to_bits() + k } else { p.to_bits() - k };
                        if f32::from_bits(b).is_normal() {
                            v = f32::from_bits(b);
                        }
                    }
                }
            }
            if let Some(r) = hover_ref {
                if !is_cpid {
                    v = hover(rng, r);
                }
            }
            prev_v = Some(v);
            if is_cpid {
                let mut p = v;
                let mut vel = value_gen(rng, scale, false, None);
                let mut acc = value_gen(rng, scale, false, None);
                if let Some(r) = hover_ref {
                    match plan.get("cmd_kind") {
                        0 => p = hover(rng, r),
                        1 => vel = hover(rng, r),
                        _ => acc = hover(rng, r),
                    }
                }
                if !v.is_finite() {
                    // a glitched reading: usually in the component the command controls
                    p = value_gen(rng, scale, false, None);
                    match if rng.chance(0.7) { plan.get("cmd_kind") } else { rng.below(3) as i64 } {
                        0 => p = v,
                        1 => vel = v,
                        _ => acc = v,
                    }
                }
                plan.push("SS", &[t, fb(p), fb(vel), fb(acc)]);
            } else if misdim_p > 0.0 && rng.chance(misdim_p) {
                let (rm, rs) = required_unit(kind).unwrap_or((plan.get("um"), plan.get("us")));
                let (mut m, mut s) = (rng.range(-3, 3), rng.range(-3, 3));
                if (m, s) == (rm, rs) {
                    m = rm + 1;
                    s = rs;
                }
                plan.push("S", &[t, fb(v), m, s]);
            } else {
                plan.push("S", &[t, fb(v)]);
            }
        }
        // the sensor's OWN update starts / stops failing (streams do not drive their inputs, so this
        // must be invisible)
        if profile == 0 && rng.chance(0.04) {
            plan.push("SUE", &[if rng.chance(0.7) { rng.range(1, 3) } else { 0 }]);
        }
        // stall: sometimes change the sensor again before updating
        if profile == 0 && rng.chance(0.06) && push_fault(&mut plan, rng) {
            since_error = 0;
        }
        // the input is live: it changes (to an error) between the first and any later read of this update
        if have_sample && !matches!(kind, "f2q" | "q2f" | "freeze") && rng.chance(0.03) {
            plan.push("FLAP", &[rng.range(1, 3)]);
            since_error = 0;
        }
        plan.push("U", &[]);
        if rng.chance(extra_get_p) {
            plan.push("G", &[rng.range(1, 3)]);
        }
    }
    // twins
    if matches!(kind, "pid" | "integral" | "derivative" | "a2s" | "v2s" | "p2s") && profile == 1 {
        // (shifts up to the ends of the i64 range: the last / first sample lands next to i64::MAX / MIN)
        let first = plan.ops.iter().find(|o| matches!(o.code.as_str(), "S" | "SS")).map(|o| o.arg(0)).unwrap_or(0);
        let c = match rng.below(8) {
            0 => 1i64 << 50,
            1 => -(1i64 << 50),
            2 => rng.range(-(1i64 << 50), 1i64 << 50),
            3 => rng.range(-1_000_000, 1_000_000),
            4 => (i64::MAX - 1).checked_sub(tg.t).unwrap_or(1),
            5 => (i64::MIN + rng.below(2) as i64).checked_sub(first).unwrap_or(1),
            6 => (1_700_000_000_000_000_000i64).checked_sub(first).unwrap_or(1),
            _ => ((1i64 << 53) + 12345).checked_sub(first).unwrap_or(1),
        };
        // every shifted stamp must stay representable
        let c = if first.checked_add(c).is_some() && tg.t.checked_add(c).is_some() { c } else { 1 };
        plan.set("shift", if c == 0 { 1 } else { c });
    }
    if kind == "pid" && profile == 1 {
        let k = rng.range(-8, 8);
        plan.set("scale_k", if k == 0 { 3 } else { k });
    }
    plan
}

pub fn generate(prop: &str, tier: Tier, rng: &mut Rng, seed: u64, run: u64) -> Plan {
    // one run in eight places the stateful streams inside a mixed graph under an arbitrary
    // update schedule (W-stream proper)
    if run % 8 == 7 && matches!(prop, "C04" | "C05" | "C10" | "C12") {
        return crate::comb::gen_graph(prop, tier, rng, seed, run);
    }
    match prop {
        "C04" => gen_node(prop, "pid", 1, tier, rng, seed, run),
        "C05" => {
            let kind = C05_KINDS[(run % C05_KINDS.len() as u64) as usize];
            gen_node(prop, kind, 0, tier, rng, seed, run)
        }
        "C10" => {
            let kinds = ["integral", "derivative", "a2s", "v2s", "p2s"];
            let kind = kinds[(run % 5) as usize];
            gen_node(prop, kind, 1, tier, rng, seed, run)
        }
        "C11" => gen_node(prop, "cpid", 1, tier, rng, seed, run),
        // two directed plans per batch: the first sample of a moving average lies within one window of the first
        // representable instant (recorded defect D7: `now - window` is computed)
        "C12" if run == 10 || run == 11 => {
            let kind = if run == 10 { "ma_f" } else { "ma_q" };
            let mut plan = Plan::new("node", prop, seed, run);
            header_for(&mut plan, kind, rng);
            plan.set("window", 1_000_000_000);
            plan.set("hold_inputs", 0);
            plan.push("S", &[i64::MIN + 5 + rng.range(0, 1000), fb(1.5)]);
            plan.push("U", &[]);
            plan
        }
        "C12" => {
            let kinds = ["ewma_f", "ewma_q", "ma_f", "ma_q"];
            let kind = kinds[(run % 4) as usize];
            gen_node(prop, kind, 2, tier, rng, seed, run)
        }
        _ => gen_node(prop, "pid", 0, tier, rng, seed, run),
    }
}

/// World-specific simplification candidates for minimisation: simpler numbers, one-second
/// steps, dropped twins.
pub fn simplify(plan: &Plan) -> Vec<Plan> {
    let mut out = Vec::new();
    // drop twins
    for k in ["shift", "scale_k"] {
        if plan.get(k) != 0 {
            let mut p = plan.clone();
            p.h.remove(k);
            out.push(p);
        }
    }
    // re-time samples to 0, 1s, 2s, ...
    {
        let mut p = plan.clone();
        let mut t = 0i64;
        let mut changed = false;
        for op in p.ops.iter_mut() {
            if matches!(op.code.as_str(), "S" | "SS") {
                if op.a[0] != t {
                    changed = true;
                }
                op.a[0] = t;
                t += 1_000_000_000;
            }
        }
        if changed {
            out.push(p);
        }
    }
    // simplify sample values one at a time
    for (i, op) in plan.ops.iter().enumerate() {
        let idxs: &[usize] = match op.code.as_str() {
            "S" => &[1],
            "SS" => &[1, 2, 3],
            "SET" => &[1],
            "FS" => &[2],
            _ => &[],
        };
        for &j in idxs {
            if j >= op.a.len() {
                continue;
            }
            let cur = f32::from_bits(op.a[j] as u32);
            for cand in [0.0f32, 1.0, 2.0, cur.round()] {
                if cand.to_bits() != cur.to_bits() {
                    let mut p = plan.clone();
                    p.ops[i].a[j] = fb(cand);
                    out.push(p);
                }
            }
        }
        if op.code == "G" && op.arg(0) > 1 {
            let mut p = plan.clone();
            p.ops[i].a[0] = 1;
            out.push(p);
        }
    }
    // simpler gains
    for k in ["kp", "ki", "kd", "setpoint", "pkp", "pki", "pkd", "vkp", "vki", "vkd", "akp", "aki", "akd"] {
        if plan.h.contains_key(k) {
            let cur = plan.getf(k);
            for cand in [0.0f32, 1.0] {
                if cur.to_bits() != cand.to_bits() {
                    let mut p = plan.clone();
                    p.setf(k, cand);
                    out.push(p);
                }
            }
        }
    }
    out
}
