//! W-device: an arena of real rrtk devices, wrappers and free terminals, built from the
//! plan header, never moved during a run. This file builds the arena, applies ops and
//! takes snapshots of every terminal. No oracle lives here.

use crate::plan::Plan;
use crate::vals::*;
use rrtk::devices::wrappers::*;
use rrtk::devices::*;
use rrtk::*;
use std::cell::{Cell, RefCell};
use std::rc::Rc;

#[derive(Clone, Debug, PartialEq)]
pub enum DevSpec {
    Ext,
    Invert,
    /// ratio bits
    Gear(u32),
    /// tooth counts (2..=6 of them), small integers
    GearTeeth(Vec<u32>),
    Axle(usize),
    /// 0 side1, 1 side2, 2 sum, 3 equal, 4 = Differential::new() (equal)
    Diff(u8),
    Act,
    Enc,
    /// initial command kind, bits
    Pid(u8, u32),
    /// placeholder that keeps terminal numbering: n free terminals
    Pad(usize),
}

impl DevSpec {
    pub fn n_terms(&self) -> usize {
        match self {
            DevSpec::Ext | DevSpec::Act | DevSpec::Enc | DevSpec::Pid(..) => 1,
            DevSpec::Invert | DevSpec::Gear(_) | DevSpec::GearTeeth(_) => 2,
            DevSpec::Axle(n) | DevSpec::Pad(n) => *n,
            DevSpec::Diff(_) => 3,
        }
    }
    pub fn to_text(&self) -> String {
        match self {
            DevSpec::Ext => "ext".into(),
            DevSpec::Invert => "inv".into(),
            DevSpec::Gear(b) => format!("gear:{}", b),
            DevSpec::GearTeeth(t) => format!(
                "teeth:{}",
                t.iter().map(|x| x.to_string()).collect::<Vec<_>>().join(",")
            ),
            DevSpec::Axle(n) => format!("axle:{}", n),
            DevSpec::Diff(m) => format!("diff:{}", m),
            DevSpec::Act => "act".into(),
            DevSpec::Enc => "enc".into(),
            DevSpec::Pid(k, b) => format!("pid:{},{}", k, b),
            DevSpec::Pad(n) => format!("pad:{}", n),
        }
    }
    pub fn parse(s: &str) -> Option<DevSpec> {
        let (head, arg) = match s.split_once(':') {
            Some((h, a)) => (h, a),
            None => (s, ""),
        };
        Some(match head {
            "ext" => DevSpec::Ext,
            "inv" => DevSpec::Invert,
            "gear" => DevSpec::Gear(arg.parse().ok()?),
            "teeth" => DevSpec::GearTeeth(arg.split(',').filter_map(|x| x.parse().ok()).collect()),
            "axle" => DevSpec::Axle(arg.parse().ok()?),
            "diff" => DevSpec::Diff(arg.parse().ok()?),
            "act" => DevSpec::Act,
            "enc" => DevSpec::Enc,
            "pid" => {
                let (k, b) = arg.split_once(',')?;
                DevSpec::Pid(k.parse().ok()?, b.parse().ok()?)
            }
            "pad" => DevSpec::Pad(arg.parse().ok()?),
            _ => return None,
        })
    }
    pub fn gear_ratio(&self) -> Option<f32> {
        match self {
            DevSpec::Gear(b) => Some(f32::from_bits(*b)),
            DevSpec::GearTeeth(t) => {
                // the documented reading: first/last with sign (-1)^(gears-1)
                let n = t.len();
                let r = tooth(t[0]) / tooth(t[n - 1]);
                Some(if (n - 1) % 2 == 1 { -r } else { r })
            }
            _ => None,
        }
    }
}

/// A tooth-list entry of a plan: a small integer is that count; anything from 2^20 up is the bit
/// pattern of an f32 (the constructor takes f32s, so 12.5 or 35.999996 are legal entries).
pub fn tooth(v: u32) -> f32 {
    if v < (1 << 20) {
        v as f32
    } else {
        f32::from_bits(v)
    }
}

pub fn parse_specs(plan: &Plan) -> Vec<DevSpec> {
    plan.gets("devs")
        .split(';')
        .filter(|s| !s.is_empty())
        .filter_map(DevSpec::parse)
        .collect()
}
pub fn specs_text(specs: &[DevSpec]) -> String {
    specs.iter().map(|s| s.to_text()).collect::<Vec<_>>().join(";")
}

// ------------------------------------------------------------------ inner stubs for wrappers

#[derive(Clone, Debug, PartialEq)]
pub enum MotorEv {
    SetTd(Val),
    SetF(u32),
    Update,
}

/// An inner object that talks back to the wrapper's own terminal from inside the calls the wrapper
/// makes on it (a servo reporting its reached position, a driver reading the bus it sits on). The
/// wrapper owns the terminal in a RefCell, so this is only possible while the wrapper holds no
/// conflicting borrow: none at all during the inner `update()`, at most a shared one otherwise.
#[derive(Clone)]
pub struct Feedback<'a> {
    pub term: Rc<Cell<Option<TermRef<'a>>>>,
    /// 0 off; 1 the inner update() writes `datum` as the terminal's own state; 2 the inner object
    /// reads the terminal (shared borrow) in update() and in get()/impl_set()
    pub mode: Rc<Cell<u8>>,
    pub datum: Rc<Cell<(i64, [u32; 3])>>,
    pub wrote: Rc<Cell<u64>>,
    pub read: Rc<Cell<u64>>,
}
impl<'a> Feedback<'a> {
    pub fn new() -> Self {
        Feedback {
            term: Rc::new(Cell::new(None)),
            mode: Rc::new(Cell::new(0)),
            datum: Rc::new(Cell::new((0, [0; 3]))),
            wrote: Rc::new(Cell::new(0)),
            read: Rc::new(Cell::new(0)),
        }
    }
    /// called from the inner object's update()
    pub fn in_update(&self) {
        let Some(t) = self.term.get() else { return };
        match self.mode.get() {
            1 => {
                let (time, s) = self.datum.get();
                let _ = set_state(t, time, s);
                self.wrote.set(self.wrote.get() + 1);
            }
            2 => self.look(),
            _ => {}
        }
    }
    /// called from the inner object's get() / impl_set()
    pub fn in_call(&self) {
        if self.mode.get() == 2 {
            self.look();
        }
    }
    fn look(&self) {
        if let Some(t) = self.term.get() {
            let _ = <Terminal<'_, E> as Getter<TerminalData, E>>::get(&t.borrow());
            self.read.set(self.read.get() + 1);
        }
    }
}

/// Shared script + log of a harness motor (the inner settable of a wrapper).
#[derive(Clone)]
pub struct MotorHandle<'a> {
    pub log: Rc<RefCell<Vec<MotorEv>>>,
    pub reject: Rc<Cell<Option<u8>>>,
    pub update_err: Rc<Cell<Option<u8>>>,
    pub fb: Feedback<'a>,
}
impl<'a> MotorHandle<'a> {
    pub fn new() -> Self {
        MotorHandle {
            log: Rc::new(RefCell::new(Vec::new())),
            reject: Rc::new(Cell::new(None)),
            update_err: Rc::new(Cell::new(None)),
            fb: Feedback::new(),
        }
    }
}

pub struct TdMotor<'a> {
    h: MotorHandle<'a>,
    data: SettableData<TerminalData, E>,
}
impl Settable<TerminalData, E> for TdMotor<'_> {
    fn impl_set(&mut self, value: TerminalData) -> NothingOrError<E> {
        if let Some(k) = self.h.reject.get() {
            return Err(err_of(k));
        }
        self.h.fb.in_call();
        self.h.log.borrow_mut().push(MotorEv::SetTd(value.to_val()));
        Ok(())
    }
    fn get_settable_data_ref(&self) -> &SettableData<TerminalData, E> {
        &self.data
    }
    fn get_settable_data_mut(&mut self) -> &mut SettableData<TerminalData, E> {
        &mut self.data
    }
}
impl Updatable<E> for TdMotor<'_> {
    fn update(&mut self) -> NothingOrError<E> {
        self.h.log.borrow_mut().push(MotorEv::Update);
        self.h.fb.in_update();
        if let Some(k) = self.h.update_err.get() {
            return Err(err_of(k));
        }
        self.update_following_data()
    }
}

pub struct FMotor<'a> {
    h: MotorHandle<'a>,
    data: SettableData<f32, E>,
}
impl Settable<f32, E> for FMotor<'_> {
    fn impl_set(&mut self, value: f32) -> NothingOrError<E> {
        if let Some(k) = self.h.reject.get() {
            return Err(err_of(k));
        }
        self.h.fb.in_call();
        self.h.log.borrow_mut().push(MotorEv::SetF(fbits(value)));
        Ok(())
    }
    fn get_settable_data_ref(&self) -> &SettableData<f32, E> {
        &self.data
    }
    fn get_settable_data_mut(&mut self) -> &mut SettableData<f32, E> {
        &mut self.data
    }
}
impl Updatable<E> for FMotor<'_> {
    fn update(&mut self) -> NothingOrError<E> {
        self.h.log.borrow_mut().push(MotorEv::Update);
        self.h.fb.in_update();
        if let Some(k) = self.h.update_err.get() {
            return Err(err_of(k));
        }
        self.update_following_data()
    }
}

/// Inner getter of an encoder wrapper: scripted output, scripted update error.
pub struct EncInner<'a> {
    pub fb: Feedback<'a>,
    /// a reading that becomes current at the next inner update() (a real encoder samples there)
    pub pending: Rc<RefCell<Option<Output<State, E>>>>,
    pub cur: Rc<RefCell<Output<State, E>>>,
    pub update_err: Rc<Cell<Option<u8>>>,
    pub updates: Rc<Cell<u64>>,
}
#[derive(Clone)]
pub struct EncHandle<'a> {
    pub fb: Feedback<'a>,
    pub pending: Rc<RefCell<Option<Output<State, E>>>>,
    pub cur: Rc<RefCell<Output<State, E>>>,
    pub update_err: Rc<Cell<Option<u8>>>,
    pub updates: Rc<Cell<u64>>,
}
impl<'a> EncHandle<'a> {
    pub fn new() -> Self {
        EncHandle {
            fb: Feedback::new(),
            pending: Rc::new(RefCell::new(None)),
            cur: Rc::new(RefCell::new(Ok(None))),
            update_err: Rc::new(Cell::new(None)),
            updates: Rc::new(Cell::new(0)),
        }
    }
}
impl Getter<State, E> for EncInner<'_> {
    fn get(&self) -> Output<State, E> {
        self.fb.in_call();
        self.cur.borrow().clone()
    }
}
impl Updatable<E> for EncInner<'_> {
    fn update(&mut self) -> NothingOrError<E> {
        self.updates.set(self.updates.get() + 1);
        self.fb.in_update();
        if let Some(p) = self.pending.borrow_mut().take() {
            *self.cur.borrow_mut() = p;
        }
        match self.update_err.get() {
            Some(k) => Err(err_of(k)),
            None => Ok(()),
        }
    }
}

// ------------------------------------------------------------------ the arena

pub enum Dev<'a> {
    Ext,
    Pad,
    Invert(Invert<'a, E>),
    Gear(GearTrain<'a, E>),
    Axle0(Axle<'a, 0, E>),
    Axle1(Axle<'a, 1, E>),
    Axle2(Axle<'a, 2, E>),
    Axle3(Axle<'a, 3, E>),
    Axle4(Axle<'a, 4, E>),
    Axle5(Axle<'a, 5, E>),
    Axle6(Axle<'a, 6, E>),
    Axle7(Axle<'a, 7, E>),
    Axle8(Axle<'a, 8, E>),
    Diff(Differential<'a, E>),
    Act(ActuatorWrapper<'a, TdMotor<'a>, E>, MotorHandle<'a>),
    Enc(GetterStateDeviceWrapper<'a, EncInner<'a>, E>, EncHandle<'a>),
    Pid(PIDWrapper<'a, FMotor<'a>, E>, MotorHandle<'a>),
}

pub type TermRef<'a> = &'a RefCell<Terminal<'a, E>>;

pub fn build_dev<'a>(spec: &DevSpec, plan: &Plan) -> Dev<'a> {
    match spec {
        DevSpec::Ext => Dev::Ext,
        DevSpec::Pad(_) => Dev::Pad,
        DevSpec::Invert => Dev::Invert(Invert::new()),
        DevSpec::Gear(b) => {
            let r = f32::from_bits(*b);
            if plan.get("gear_ctor_quantity") != 0 {
                Dev::Gear(GearTrain::with_ratio(Quantity::dimensionless(r)))
            } else {
                Dev::Gear(GearTrain::with_ratio_raw(r))
            }
        }
        DevSpec::GearTeeth(t) => {
            let f = |i: usize| tooth(t[i]);
            Dev::Gear(match t.len() {
                2 => GearTrain::new([f(0), f(1)]),
                3 => GearTrain::new([f(0), f(1), f(2)]),
                4 => GearTrain::new([f(0), f(1), f(2), f(3)]),
                5 => GearTrain::new([f(0), f(1), f(2), f(3), f(4)]),
                _ => GearTrain::new([f(0), f(1), f(2), f(3), f(4), f(5)]),
            })
        }
        DevSpec::Axle(n) => match n {
            0 => Dev::Axle0(Axle::new()),
            1 => Dev::Axle1(Axle::new()),
            2 => Dev::Axle2(Axle::new()),
            3 => Dev::Axle3(Axle::new()),
            4 => Dev::Axle4(Axle::new()),
            5 => Dev::Axle5(Axle::new()),
            6 => Dev::Axle6(Axle::new()),
            7 => Dev::Axle7(Axle::new()),
            _ => Dev::Axle8(Axle::new()),
        },
        DevSpec::Diff(m) => Dev::Diff(match m {
            0 => Differential::with_distrust(DifferentialDistrust::Side1),
            1 => Differential::with_distrust(DifferentialDistrust::Side2),
            2 => Differential::with_distrust(DifferentialDistrust::Sum),
            3 => Differential::with_distrust(DifferentialDistrust::Equal),
            _ => Differential::new(),
        }),
        DevSpec::Act => {
            let h = MotorHandle::new();
            Dev::Act(
                ActuatorWrapper::new(TdMotor { h: h.clone(), data: SettableData::new() }),
                h,
            )
        }
        DevSpec::Enc => {
            let h = EncHandle::new();
            Dev::Enc(
                GetterStateDeviceWrapper::new(EncInner {
                    fb: h.fb.clone(),
                    pending: h.pending.clone(),
                    cur: h.cur.clone(),
                    update_err: h.update_err.clone(),
                    updates: h.updates.clone(),
                }),
                h,
            )
        }
        DevSpec::Pid(k, b) => {
            let h = MotorHandle::new();
            let g = |key: &str| plan.getf(key);
            let kv = PositionDerivativeDependentPIDKValues::new(
                PIDKValues::new(g("pkp"), g("pki"), g("pkd")),
                PIDKValues::new(g("vkp"), g("vki"), g("vkd")),
                PIDKValues::new(g("akp"), g("aki"), g("akd")),
            );
            Dev::Pid(
                PIDWrapper::new(
                    FMotor { h: h.clone(), data: SettableData::new() },
                    Time(plan.get("pid_t0")),
                    State::new_raw(g("pid_s0p"), g("pid_s0v"), g("pid_s0a")),
                    cmd_from(*k, *b),
                    kv,
                ),
                h,
            )
        }
    }
}

impl<'a> Dev<'a> {
    pub fn feedback(&self) -> Option<&Feedback<'a>> {
        match self {
            Dev::Act(_, h) | Dev::Pid(_, h) => Some(&h.fb),
            Dev::Enc(_, h) => Some(&h.fb),
            _ => None,
        }
    }
    /// the device's terminals through the public accessors
    pub fn terminals(&self) -> Vec<TermRef<'a>> {
        match self {
            Dev::Ext | Dev::Pad => vec![],
            Dev::Invert(d) => vec![d.get_terminal_1(), d.get_terminal_2()],
            Dev::Gear(d) => vec![d.get_terminal_1(), d.get_terminal_2()],
            Dev::Axle0(_) => vec![],
            Dev::Axle1(d) => (0..1).map(|i| d.get_terminal(i)).collect(),
            Dev::Axle2(d) => (0..2).map(|i| d.get_terminal(i)).collect(),
            Dev::Axle3(d) => (0..3).map(|i| d.get_terminal(i)).collect(),
            Dev::Axle4(d) => (0..4).map(|i| d.get_terminal(i)).collect(),
            Dev::Axle5(d) => (0..5).map(|i| d.get_terminal(i)).collect(),
            Dev::Axle6(d) => (0..6).map(|i| d.get_terminal(i)).collect(),
            Dev::Axle7(d) => (0..7).map(|i| d.get_terminal(i)).collect(),
            Dev::Axle8(d) => (0..8).map(|i| d.get_terminal(i)).collect(),
            Dev::Diff(d) => vec![d.get_side_1(), d.get_side_2(), d.get_sum()],
            Dev::Act(d, _) => vec![d.get_terminal()],
            Dev::Enc(d, _) => vec![d.get_terminal()],
            Dev::Pid(d, _) => vec![d.get_terminal()],
        }
    }
    pub fn update(&mut self) -> NothingOrError<E> {
        match self {
            Dev::Ext | Dev::Pad => Ok(()),
            Dev::Invert(d) => d.update(),
            Dev::Gear(d) => d.update(),
            Dev::Axle0(d) => d.update(),
            Dev::Axle1(d) => d.update(),
            Dev::Axle2(d) => d.update(),
            Dev::Axle3(d) => d.update(),
            Dev::Axle4(d) => d.update(),
            Dev::Axle5(d) => d.update(),
            Dev::Axle6(d) => d.update(),
            Dev::Axle7(d) => d.update(),
            Dev::Axle8(d) => d.update(),
            Dev::Diff(d) => d.update(),
            Dev::Act(d, _) => d.update(),
            Dev::Enc(d, _) => d.update(),
            Dev::Pid(d, _) => d.update(),
        }
    }
}

// ------------------------------------------------------------------ snapshots

#[derive(Clone, Copy, Debug, PartialEq)]
pub struct TSnap {
    pub own_s: Option<(i64, [u32; 3])>,
    pub own_c: Option<(i64, u8, u32)>,
    pub rd_s: Out,
    pub rd_c: Out,
    pub rd_td: Out,
}

/// the same reads made by the holder of the terminal's MUTABLE guard (a `RefMut` derefs to `&Terminal`:
/// "write, then read back through the same guard" is ordinary safe code)
pub fn snap_term_via_mut(t: TermRef<'_>) -> TSnap {
    let guard = t.borrow_mut();
    snap_of(&guard)
}

pub fn snap_term(t: TermRef<'_>) -> TSnap {
    let guard = t.borrow();
    snap_of(&guard)
}

fn snap_of(b: &Terminal<'_, E>) -> TSnap {
    let own_s = <Terminal<'_, E> as Settable<Datum<State>, E>>::get_last_request(&b)
        .map(|d| (d.time.0, state_bits(&d.value)));
    let own_c = <Terminal<'_, E> as Settable<Datum<Command>, E>>::get_last_request(&b).map(|d| {
        let (k, bits) = cmd_bits(&d.value);
        (d.time.0, k, bits)
    });
    let rd_s = norm(&<Terminal<'_, E> as Getter<State, E>>::get(&b));
    let rd_c = norm(&<Terminal<'_, E> as Getter<Command, E>>::get(&b));
    let rd_td = norm(&<Terminal<'_, E> as Getter<TerminalData, E>>::get(&b));
    TSnap { own_s, own_c, rd_s, rd_c, rd_td }
}

pub fn set_state(t: TermRef<'_>, time: i64, s: [u32; 3]) -> NothingOrError<E> {
    let st = State::new_raw(f32::from_bits(s[0]), f32::from_bits(s[1]), f32::from_bits(s[2]));
    t.borrow_mut().set(Datum::new(Time(time), st))
}
pub fn set_cmd(t: TermRef<'_>, time: i64, kind: u8, bits: u32) -> NothingOrError<E> {
    t.borrow_mut().set(Datum::new(Time(time), cmd_from(kind, bits)))
}
