//! W-word: the six arithmetic combinators instantiated at a payload type whose operators are
//! neither commutative nor associative (a free magma folded into 64 bits). With f32 and Quantity
//! payloads `x * y` and `y * x` are the same bits, so "combined with exactly the corresponding
//! operator in input order" and "the two-input sum and product agree with the n-ary ones" cannot be
//! told from their mirror images there; here the result is a fingerprint of the whole expression
//! tree: which operator, which operand on which side, folded in which grouping.
//!
//! Plan: header `kind` (0 Sum2, 1 SumStream, 2 Product2, 3 ProductStream, 4 DifferenceStream,
//! 5 QuotientStream), `n` (inputs: 2 for the binary ones, 1..=12, 16 or 33 for the n-ary ones); ops
//!   IN i cat t w   input i now returns: cat 0 Ok(None), 1..=3 Err(code), 4 Ok(Some(Datum(t, W(w))))
//!   G              read the combinator twice, compare with the model (and, for the two-input sum
//!                  and product, with the n-ary stream over the same two inputs)
use crate::core::{guarded, Ctx, Tier};
use crate::plan::Plan;
use crate::rng::Rng;
use crate::stubs::{dyn_getter, SensorHandle};
use crate::vals::{er_of, err_of, E};
use core::ops::{Add, AddAssign, Div, Mul, MulAssign, Sub};
use rrtk::streams::math::*;
use rrtk::*;

#[derive(Clone, Copy, Debug, PartialEq, Eq, Default)]
pub struct W(pub u64);

fn mix(tag: u64, a: u64, b: u64) -> u64 {
    let mut z = a
        .wrapping_mul(0x9E37_79B9_7F4A_7C15)
        .wrapping_add(b.rotate_left(23).wrapping_mul(0xC2B2_AE3D_27D4_EB4F))
        .wrapping_add(tag.wrapping_mul(0x1656_67B1_9E37_79F9));
    z = (z ^ (z >> 30)).wrapping_mul(0xBF58_476D_1CE4_E5B9);
    z = (z ^ (z >> 27)).wrapping_mul(0x94D0_49BB_1331_11EB);
    z ^ (z >> 31)
}
impl Add for W {
    type Output = W;
    fn add(self, r: W) -> W {
        W(mix(1, self.0, r.0))
    }
}
impl Sub for W {
    type Output = W;
    fn sub(self, r: W) -> W {
        W(mix(2, self.0, r.0))
    }
}
impl Mul for W {
    type Output = W;
    fn mul(self, r: W) -> W {
        W(mix(3, self.0, r.0))
    }
}
impl Div for W {
    type Output = W;
    fn div(self, r: W) -> W {
        W(mix(4, self.0, r.0))
    }
}
impl AddAssign for W {
    fn add_assign(&mut self, r: W) {
        *self = *self + r;
    }
}
impl MulAssign for W {
    fn mul_assign(&mut self, r: W) {
        *self = *self * r;
    }
}

#[derive(Clone, Copy, Debug, PartialEq)]
enum O {
    Err(crate::vals::Er),
    None,
    Some(i64, u64),
}
fn norm(o: &Output<W, E>) -> O {
    match o {
        Err(e) => O::Err(crate::vals::Er::from_rrtk(*e)),
        Ok(None) => O::None,
        Ok(Some(d)) => O::Some(d.time.0, d.value.0),
    }
}

const KIND_NAMES: [&str; 6] = ["sum2", "sum", "product2", "product", "difference", "quotient"];

type DynW = Reference<dyn Getter<W, E>>;

fn nary_sum(ins: &[DynW]) -> Box<dyn Getter<W, E>> {
    let g = |i: usize| ins[i].clone();
    match ins.len() {
        1 => Box::new(SumStream::new([g(0)])),
        2 => Box::new(SumStream::new([g(0), g(1)])),
        3 => Box::new(SumStream::new([g(0), g(1), g(2)])),
        4 => Box::new(SumStream::new([g(0), g(1), g(2), g(3)])),
        5 => Box::new(SumStream::new([g(0), g(1), g(2), g(3), g(4)])),
        6 => Box::new(SumStream::new([g(0), g(1), g(2), g(3), g(4), g(5)])),
        7 => Box::new(SumStream::new([g(0), g(1), g(2), g(3), g(4), g(5), g(6)])),
        8 => Box::new(SumStream::new([g(0), g(1), g(2), g(3), g(4), g(5), g(6), g(7)])),
        9 => Box::new(SumStream::<W, 9, E>::new(std::array::from_fn(g))),
        10 => Box::new(SumStream::<W, 10, E>::new(std::array::from_fn(g))),
        11 => Box::new(SumStream::<W, 11, E>::new(std::array::from_fn(g))),
        12 => Box::new(SumStream::<W, 12, E>::new(std::array::from_fn(g))),
        16 => Box::new(SumStream::<W, 16, E>::new(std::array::from_fn(g))),
        _ => Box::new(SumStream::<W, 33, E>::new(std::array::from_fn(g))),
    }
}
fn nary_product(ins: &[DynW]) -> Box<dyn Getter<W, E>> {
    let g = |i: usize| ins[i].clone();
    match ins.len() {
        1 => Box::new(ProductStream::new([g(0)])),
        2 => Box::new(ProductStream::new([g(0), g(1)])),
        3 => Box::new(ProductStream::new([g(0), g(1), g(2)])),
        4 => Box::new(ProductStream::new([g(0), g(1), g(2), g(3)])),
        5 => Box::new(ProductStream::new([g(0), g(1), g(2), g(3), g(4)])),
        6 => Box::new(ProductStream::new([g(0), g(1), g(2), g(3), g(4), g(5)])),
        7 => Box::new(ProductStream::new([g(0), g(1), g(2), g(3), g(4), g(5), g(6)])),
        8 => Box::new(ProductStream::new([g(0), g(1), g(2), g(3), g(4), g(5), g(6), g(7)])),
        9 => Box::new(ProductStream::<W, 9, E>::new(std::array::from_fn(g))),
        10 => Box::new(ProductStream::<W, 10, E>::new(std::array::from_fn(g))),
        11 => Box::new(ProductStream::<W, 11, E>::new(std::array::from_fn(g))),
        12 => Box::new(ProductStream::<W, 12, E>::new(std::array::from_fn(g))),
        16 => Box::new(ProductStream::<W, 16, E>::new(std::array::from_fn(g))),
        _ => Box::new(ProductStream::<W, 33, E>::new(std::array::from_fn(g))),
    }
}

/// the documented outcome
fn model(kind: i64, ins: &[O]) -> O {
    let tag = match kind {
        0 | 1 => 1,
        4 => 2,
        2 | 3 => 3,
        _ => 4,
    };
    match kind {
        0..=3 => {
            // an input error is returned unchanged, earliest input first; absent inputs are skipped;
            // present values are folded left to right
            for i in ins {
                if let O::Err(e) = i {
                    return O::Err(*e);
                }
            }
            let mut acc: Option<(i64, u64)> = None;
            for i in ins {
                if let O::Some(t, w) = *i {
                    acc = Some(match acc {
                        None => (t, w),
                        Some((ta, wa)) => (ta.max(t), mix(tag, wa, w)),
                    });
                }
            }
            match acc {
                None => O::None,
                Some((t, w)) => O::Some(t, w),
            }
        }
        _ => {
            for i in ins {
                if let O::Err(e) = i {
                    return O::Err(*e);
                }
            }
            match (ins[0], ins[1]) {
                (O::None, _) => O::None,
                (a, O::None) => a,
                (O::Some(ta, wa), O::Some(tb, wb)) => O::Some(ta.max(tb), mix(tag, wa, wb)),
                _ => unreachable!(),
            }
        }
    }
}

pub fn execute(plan: &Plan, ctx: &mut Ctx) {
    let kind = plan.get("kind").clamp(0, 5);
    let n = if matches!(kind, 1 | 3) {
        match plan.get("n").clamp(1, 33) as usize {
            n @ 1..=12 => n,
            13..=16 => 16,
            _ => 33,
        }
    } else {
        2
    };
    let comp = KIND_NAMES[kind as usize];
    let handles: Vec<SensorHandle<W>> = (0..n).map(|_| SensorHandle::new()).collect();
    let ins: Vec<DynW> = handles.iter().map(|h| dyn_getter::<W, _>(h.sensor())).collect();
    let built = guarded(|| -> (Box<dyn Getter<W, E>>, Option<Box<dyn Getter<W, E>>>) {
        match kind {
            0 => (Box::new(Sum2::new(ins[0].clone(), ins[1].clone())), Some(nary_sum(&ins))),
            1 => (nary_sum(&ins), None),
            2 => (Box::new(Product2::new(ins[0].clone(), ins[1].clone())), Some(nary_product(&ins))),
            3 => (nary_product(&ins), None),
            4 => (Box::new(DifferenceStream::new(ins[0].clone(), ins[1].clone())), None),
            _ => (Box::new(QuotientStream::new(ins[0].clone(), ins[1].clone())), None),
        }
    });
    let (node, nary_twin) = match built {
        Ok(x) => x,
        Err(p) => {
            ctx.violate(&plan.prop, "panic", comp, format!("constructor panicked: {:?} at {}", p.msg, p.short_loc()));
            return;
        }
    };
    let mut cur: Vec<O> = vec![O::None; n];
    for (i, op) in plan.ops.iter().enumerate() {
        ctx.cur_op = i;
        match op.code.as_str() {
            "IN" => {
                let k = op.arg(0) as usize;
                if k >= n {
                    continue;
                }
                let (o, v): (O, Output<W, E>) = match op.arg(1) {
                    0 => (O::None, Ok(None)),
                    c @ 1..=3 => (O::Err(er_of(c as u8)), Err(err_of(c as u8))),
                    _ => (O::Some(op.arg(2), op.arg(3) as u64), Ok(Some(Datum::new(Time(op.arg(2)), W(op.arg(3) as u64))))),
                };
                if matches!(o, O::Err(_)) {
                    ctx.count("fault.input_error");
                }
                if o == O::None {
                    ctx.count("fault.input_absent");
                }
                cur[k] = o;
                handles[k].set(v);
            }
            "G" => {
                let want = model(kind, &cur);
                let cats: Vec<i64> = cur
                    .iter()
                    .map(|o| match o {
                        O::None => 0,
                        O::Err(_) => 1,
                        O::Some(..) => 2,
                    })
                    .collect();
                let order = match (cur[0], cur.get(1).copied()) {
                    (O::Some(a, _), Some(O::Some(b, _))) => 1 + (a > b) as i64 + (a >= b) as i64,
                    _ => 0,
                };
                let mut cell = vec![kind, n as i64, order];
                cell.extend(cats.iter().take(3));
                ctx.cell("C02.word", &cell);
                ctx.count("reach.noncommutative_payload_read");
                if cur.iter().filter(|o| matches!(o, O::Some(..))).count() >= 2 {
                    ctx.nontrivial = true;
                    ctx.count("reach.noncommutative_payload_combined");
                }
                let r = guarded(|| (norm(&node.get()), norm(&node.get()), nary_twin.as_ref().map(|t| norm(&t.get()))));
                match r {
                    Err(p) => {
                        ctx.violate(&plan.prop, "panic", comp, format!("op {}: get panicked: {:?} at {}", i, p.msg, p.short_loc()));
                        return;
                    }
                    Ok((g1, g2, tw)) => {
                        ctx.trace(&format!("{} G {:?} {:?}", i, g1, tw));
                        if g1 != want {
                            let oracle = match (g1, want) {
                                (O::Some(t, _), O::Some(t2, _)) if t != t2 => "word_time",
                                (O::Some(..), O::Some(..)) => "word_operand_order",
                                _ => "word_category",
                            };
                            ctx.violate(&plan.prop, oracle, comp, format!("op {}: inputs {:?}: expected {:?} (operator applied to the present values left to right), got {:?}", i, cur, want, g1));
                        }
                        if g2 != g1 {
                            ctx.violate(&plan.prop, "read_changes_later_read", comp, format!("op {}: two consecutive reads returned {:?} and {:?}", i, g1, g2));
                        }
                        if let Some(tw) = tw {
                            if tw != g1 {
                                ctx.violate(&plan.prop, "binary_agrees_with_nary", comp, format!("op {}: inputs {:?}: the two-input stream returned {:?}, the n-ary stream over the same inputs {:?}", i, cur, g1, tw));
                            }
                        }
                    }
                }
            }
            _ => {}
        }
    }
}

/// total number of enumerated plans: kind x (categories of input 0) x (categories of input 1) x time order
pub const ENUM_TOTAL: u64 = 6 * 4 * 4 * 3;

pub fn generate(prop: &str, _tier: Tier, rng: &mut Rng, seed: u64, run: u64, index: u64) -> Plan {
    let mut plan = Plan::new("word", prop, seed, run);
    let word = |rng: &mut Rng| rng.next_u64() as i64;
    if index < ENUM_TOTAL {
        let kind = (index % 6) as i64;
        let c0 = (index / 6) % 4;
        let c1 = (index / 24) % 4;
        let ord = (index / 96) % 3;
        plan.set("kind", kind);
        plan.set("n", 2);
        let t0 = rng.range(-1_000_000, 1_000_000);
        let t1 = match ord {
            0 => t0 - rng.range(1, 1000),
            1 => t0,
            _ => t0 + rng.range(1, 1000),
        };
        for (k, c, t) in [(0i64, c0, t0), (1, c1, t1)] {
            let cat = match c {
                0 => 0,
                1 => 1,
                2 => 2,
                _ => 4,
            };
            plan.push("IN", &[k, cat, t, word(rng)]);
        }
        plan.push("G", &[]);
        return plan;
    }
    let kind = rng.below(6) as i64;
    let n = if matches!(kind, 1 | 3) { *rng.pick(&[1, 2, 3, 4, 5, 6, 7, 8, 9, 10, 11, 12, 16, 33]) } else { 2 };
    plan.set("kind", kind);
    plan.set("n", n);
    let p_fault = *rng.pick(&[0.0, 0.1, 0.3]);
    let mut t = rng.range(-1_000_000_000, 1_000_000_000);
    for _ in 0..rng.range(1, 6) {
        for k in 0..n {
            if rng.chance(0.7) {
                let cat = if rng.chance(p_fault) { *rng.pick(&[0, 0, 1, 2, 3]) } else { 4 };
                if rng.chance(0.7) {
                    t += rng.range(0, 1000);
                }
                let tt = if rng.chance(0.2) { t - rng.range(0, 2000) } else { t };
                plan.push("IN", &[k, cat, tt, word(rng)]);
            }
        }
        plan.push("G", &[]);
    }
    plan
}
