//! The only source of randomness in the simulator: splitmix64 -> xoshiro256**.
//! Only *plan generation* draws from it; execution and logging never do.

pub fn splitmix64(state: &mut u64) -> u64 {
    *state = state.wrapping_add(0x9E37_79B9_7F4A_7C15);
    let mut z = *state;
    z = (z ^ (z >> 30)).wrapping_mul(0xBF58_476D_1CE4_E5B9);
    z = (z ^ (z >> 27)).wrapping_mul(0x94D0_49BB_1331_11EB);
    z ^ (z >> 31)
}

pub fn fnv1a(bytes: &[u8]) -> u64 {
    let mut h: u64 = 0xcbf2_9ce4_8422_2325;
    for b in bytes {
        h ^= *b as u64;
        h = h.wrapping_mul(0x0000_0100_0000_01B3);
    }
    h
}

#[derive(Clone)]
pub struct Rng {
    s: [u64; 4],
}

impl Rng {
    pub fn new(seed: u64) -> Self {
        let mut sm = seed;
        let s = [
            splitmix64(&mut sm),
            splitmix64(&mut sm),
            splitmix64(&mut sm),
            splitmix64(&mut sm),
        ];
        Rng { s }
    }
    /// PRNG for run `index` of the batch for `tag` under `seed`.
    pub fn for_run(seed: u64, tag: &str, index: u64) -> Self {
        let mut sm = seed ^ fnv1a(tag.as_bytes()).rotate_left(17);
        let a = splitmix64(&mut sm);
        let mut sm2 = a ^ index.wrapping_mul(0xD6E8_FEB8_6659_FD93);
        Rng::new(splitmix64(&mut sm2))
    }
    pub fn next_u64(&mut self) -> u64 {
        let result = self.s[1].wrapping_mul(5).rotate_left(7).wrapping_mul(9);
        let t = self.s[1] << 17;
        self.s[2] ^= self.s[0];
        self.s[3] ^= self.s[1];
        self.s[1] ^= self.s[2];
        self.s[0] ^= self.s[3];
        self.s[2] ^= t;
        self.s[3] = self.s[3].rotate_left(45);
        result
    }
    /// uniform in 0..n (n > 0)
    pub fn below(&mut self, n: u64) -> u64 {
        debug_assert!(n > 0);
        // multiply-shift; bias is irrelevant here
        ((self.next_u64() as u128 * n as u128) >> 64) as u64
    }
    pub fn range(&mut self, lo: i64, hi: i64) -> i64 {
        // inclusive
        debug_assert!(hi >= lo);
        let span = (hi as i128 - lo as i128 + 1) as u128;
        let r = ((self.next_u64() as u128 * span) >> 64) as i128;
        (lo as i128 + r) as i64
    }
    pub fn chance(&mut self, p: f64) -> bool {
        self.unit() < p
    }
    /// uniform in [0,1)
    pub fn unit(&mut self) -> f64 {
        (self.next_u64() >> 11) as f64 / (1u64 << 53) as f64
    }
    pub fn pick<'a, T>(&mut self, xs: &'a [T]) -> &'a T {
        &xs[self.below(xs.len() as u64) as usize]
    }
    /// log-uniform integer in [lo, hi], lo >= 1
    pub fn log_uniform(&mut self, lo: i64, hi: i64) -> i64 {
        let l = (lo as f64).ln();
        let h = (hi as f64).ln();
        let x = (l + (h - l) * self.unit()).exp();
        (x as i64).clamp(lo, hi)
    }
    /// A "moderate" finite f32: mixture of small integers, powers of two, and
    /// log-uniform magnitudes in [1e-3, 1e3], random sign.
    pub fn moderate_f32(&mut self) -> f32 {
        let v = match self.below(10) {
            0 => 0.0,
            1 => self.range(-8, 8) as f32,
            2 => (2.0f32).powi(self.range(-6, 6) as i32),
            3 => self.range(-1000, 1000) as f32 / 8.0,
            _ => {
                let mag = (10.0f64).powf(-3.0 + 6.0 * self.unit());
                mag as f32
            }
        };
        if self.chance(0.5) {
            -v
        } else {
            v
        }
    }
    /// A nonzero moderate f32 with magnitude in [lo, hi].
    pub fn mag_f32(&mut self, lo: f64, hi: f64) -> f32 {
        let l = lo.ln();
        let h = hi.ln();
        let mag = (l + (h - l) * self.unit()).exp() as f32;
        if self.chance(0.5) {
            -mag
        } else {
            mag
        }
    }
}
