//! Shared machinery: run context, violation records, panic capture, the parallel batch
//! runner, plan minimisation (ddmin + world-specific simplification) and JSON output.

use crate::plan::Plan;
use crate::rng::{fnv1a, Rng};
use std::cell::RefCell;
use std::collections::{BTreeMap, BTreeSet};
use std::panic::{catch_unwind, AssertUnwindSafe};
use std::sync::atomic::{AtomicU64, Ordering};
use std::sync::Mutex;

#[derive(Clone, Copy, PartialEq, Eq, Debug)]
pub enum Tier {
    Quick,
    Thorough,
}

#[derive(Clone, Debug)]
pub struct Violation {
    pub prop: String,
    pub oracle: String,
    pub comp: String,
    pub detail: String,
    pub op_index: usize,
}

impl Violation {
    pub fn sig(&self) -> String {
        format!("{}|{}|{}", self.prop, self.oracle, self.comp)
    }
}

/// Per-execution context. Everything an executor reports goes through here.
pub struct Ctx {
    pub violations: Vec<Violation>,
    pub counters: BTreeMap<&'static str, u64>,
    pub cells: BTreeSet<(u64, u64)>,
    pub cell_names: BTreeMap<u64, String>,
    pub trace_hash: u64,
    pub hist_sig: u64,
    pub nontrivial: bool,
    pub sim_ns: i128,
    pub record_trace: bool,
    pub trace_lines: Vec<String>,
    pub cur_op: usize,
}

impl Ctx {
    pub fn new(record_trace: bool) -> Self {
        Ctx {
            violations: Vec::new(),
            counters: BTreeMap::new(),
            cells: BTreeSet::new(),
            cell_names: BTreeMap::new(),
            trace_hash: 0xcbf2_9ce4_8422_2325,
            hist_sig: 0xcbf2_9ce4_8422_2325,
            nontrivial: false,
            sim_ns: 0,
            record_trace,
            trace_lines: Vec::new(),
            cur_op: 0,
        }
    }
    pub fn count(&mut self, key: &'static str) {
        *self.counters.entry(key).or_insert(0) += 1;
    }
    pub fn count_n(&mut self, key: &'static str, n: u64) {
        *self.counters.entry(key).or_insert(0) += n;
    }
    pub fn cell(&mut self, space: &str, parts: &[i64]) {
        let sp = fnv1a(space.as_bytes());
        if !self.cell_names.contains_key(&sp) {
            self.cell_names.insert(sp, space.to_string());
        }
        let mut h = sp;
        for p in parts {
            h ^= *p as u64;
            h = h.wrapping_mul(0x0000_0100_0000_01B3);
            h = h.rotate_left(13);
        }
        self.cells.insert((sp, h));
    }
    /// Canonical trace line: hashed always, stored only when recording.
    pub fn trace(&mut self, line: &str) {
        for b in line.as_bytes() {
            self.trace_hash ^= *b as u64;
            self.trace_hash = self.trace_hash.wrapping_mul(0x0000_0100_0000_01B3);
        }
        self.trace_hash ^= 0x0a;
        self.trace_hash = self.trace_hash.wrapping_mul(0x0000_0100_0000_01B3);
        if self.record_trace {
            self.trace_lines.push(line.to_string());
        }
    }
    /// History-signature element (component kind, event category, model-state class).
    pub fn sig(&mut self, a: u64) {
        self.hist_sig ^= a;
        self.hist_sig = self.hist_sig.wrapping_mul(0x0000_0100_0000_01B3);
        self.hist_sig = self.hist_sig.rotate_left(7);
    }
    pub fn violate(&mut self, prop: &str, oracle: &str, comp: &str, detail: String) {
        if self.violations.len() < 64 {
            self.violations.push(Violation {
                prop: prop.to_string(),
                oracle: oracle.to_string(),
                comp: comp.to_string(),
                detail,
                op_index: self.cur_op,
            });
        }
    }
}

// ---------------------------------------------------------------- panic capture

thread_local! {
    static LAST_PANIC: RefCell<Option<(String, String)>> = const { RefCell::new(None) };
}

pub fn install_panic_hook() {
    std::panic::set_hook(Box::new(|info| {
        let msg = if let Some(s) = info.payload().downcast_ref::<&str>() {
            s.to_string()
        } else if let Some(s) = info.payload().downcast_ref::<String>() {
            s.clone()
        } else {
            "<non-string panic>".to_string()
        };
        let loc = info
            .location()
            .map(|l| format!("{}:{}", l.file(), l.line()))
            .unwrap_or_else(|| "?".to_string());
        if std::env::var_os("RRTK_SIM_DEBUG").is_some() {
            eprintln!("panic: {} at {}", msg, loc);
        }
        LAST_PANIC.with(|p| *p.borrow_mut() = Some((msg, loc)));
    }));
}

#[derive(Clone, Debug)]
pub struct PanicInfo {
    pub msg: String,
    pub loc: String,
}

impl PanicInfo {
    /// file name without directories / line, for signatures that survive path changes
    pub fn short_loc(&self) -> String {
        let f = self.loc.rsplit('/').next().unwrap_or(&self.loc);
        f.to_string()
    }
    pub fn in_rrtk(&self) -> bool {
        self.loc.contains("/repo/") || self.loc.starts_with("src/") || self.loc.contains("rrtk")
    }
}

pub fn guarded<R>(f: impl FnOnce() -> R) -> Result<R, PanicInfo> {
    match catch_unwind(AssertUnwindSafe(f)) {
        Ok(r) => Ok(r),
        Err(_) => {
            let (msg, loc) = LAST_PANIC
                .with(|p| p.borrow_mut().take())
                .unwrap_or(("<unknown>".into(), "?".into()));
            Err(PanicInfo { msg, loc })
        }
    }
}

// ---------------------------------------------------------------- batch runner

/// Called (from a watchdog thread) when one run has not finished within the hang limit: it gets the
/// run index and the regenerated plan, persists them and ends the process — a run that never returns
/// cannot be joined.
pub type HangFn = Box<dyn Fn(u64, Plan, u64) + Send + Sync>;
pub static HANG_HANDLER: Mutex<Option<HangFn>> = Mutex::new(None);

/// seconds a single run may take before it counts as hung (runs take micro- to milliseconds)
pub fn hang_limit_s() -> u64 {
    std::env::var("RRTK_SIM_HANG_S").ok().and_then(|s| s.parse().ok()).unwrap_or(60)
}

pub type GenFn = fn(prop: &str, tier: Tier, rng: &mut Rng, seed: u64, run: u64) -> Plan;
pub type ExecFn = fn(plan: &Plan, ctx: &mut Ctx);
pub type SimplifyFn = fn(plan: &Plan) -> Vec<Plan>;

pub struct BatchResult {
    pub runs: u64,
    pub counters: BTreeMap<&'static str, u64>,
    pub cells: BTreeSet<(u64, u64)>,
    pub cell_names: BTreeMap<u64, String>,
    pub distinct_sigs: BTreeSet<u64>,
    pub nontrivial_runs: u64,
    pub sim_ns: i128,
    pub trace_xor: u64,
    pub trace_sum: u64,
    /// signature -> (lowest failing run index, its plan, detail)
    pub failures: BTreeMap<String, (u64, Plan, String)>,
    pub failing_runs: u64,
    pub samples: Vec<Plan>,
}

struct WorkerAgg {
    counters: BTreeMap<&'static str, u64>,
    cells: BTreeSet<(u64, u64)>,
    cell_names: BTreeMap<u64, String>,
    sigs: BTreeSet<u64>,
    nontrivial: u64,
    sim_ns: i128,
    trace_xor: u64,
    trace_sum: u64,
    failures: BTreeMap<String, (u64, Plan, String)>,
    failing_runs: u64,
    samples: Vec<(u64, Plan)>,
    runs: u64,
}

pub fn run_batch(
    prop: &str,
    tier: Tier,
    seed: u64,
    first: u64,
    nruns: u64,
    workers: usize,
    gen: GenFn,
    exec: ExecFn,
    only_prop: bool,
) -> BatchResult {
    let next = AtomicU64::new(first);
    let aggs: Mutex<Vec<WorkerAgg>> = Mutex::new(Vec::new());
    // watchdog state: per worker, the run in progress and when it started (ms since t0)
    let t0 = std::time::Instant::now();
    let nworkers = workers.max(1);
    let slots: Vec<(AtomicU64, AtomicU64)> = (0..nworkers).map(|_| (AtomicU64::new(u64::MAX), AtomicU64::new(0))).collect();
    let finished = AtomicU64::new(0);
    let wid = AtomicU64::new(0);
    std::thread::scope(|s| {
        if !cfg!(miri) {
            s.spawn(|| {
                let limit_ms = hang_limit_s() * 1000;
                while finished.load(Ordering::SeqCst) < nworkers as u64 {
                    std::thread::sleep(std::time::Duration::from_millis(50));
                    let now = t0.elapsed().as_millis() as u64;
                    for (cur, since) in slots.iter() {
                        let idx = cur.load(Ordering::SeqCst);
                        let st = since.load(Ordering::SeqCst);
                        if idx != u64::MAX && now.saturating_sub(st) > limit_ms && cur.load(Ordering::SeqCst) == idx {
                            let mut rng = Rng::for_run(seed, prop, idx);
                            let plan = gen(prop, tier, &mut rng, seed, idx);
                            if let Some(h) = HANG_HANDLER.lock().unwrap().as_ref() {
                                h(idx, plan, limit_ms / 1000);
                            }
                            eprintln!("run {} of {} did not finish within {} s", idx, prop, limit_ms / 1000);
                            std::process::exit(3);
                        }
                    }
                }
            });
        }
        for _ in 0..nworkers {
            s.spawn(|| {
                let my = wid.fetch_add(1, Ordering::SeqCst) as usize;
                let slot = &slots[my];
                let mut agg = WorkerAgg {
                    counters: BTreeMap::new(),
                    cells: BTreeSet::new(),
                    cell_names: BTreeMap::new(),
                    sigs: BTreeSet::new(),
                    nontrivial: 0,
                    sim_ns: 0,
                    trace_xor: 0,
                    trace_sum: 0,
                    failures: BTreeMap::new(),
                    failing_runs: 0,
                    samples: Vec::new(),
                    runs: 0,
                };
                loop {
                    // chunks of 64 runs keep contention low; result is independent of chunking
                    let start = next.fetch_add(64, Ordering::Relaxed);
                    if start >= nruns {
                        break;
                    }
                    let end = (start + 64).min(nruns);
                    for idx in start..end {
                        let mut rng = Rng::for_run(seed, prop, idx);
                        let plan = gen(prop, tier, &mut rng, seed, idx);
                        let mut ctx = Ctx::new(false);
                        slot.1.store(t0.elapsed().as_millis() as u64, Ordering::SeqCst);
                        slot.0.store(idx, Ordering::SeqCst);
                        if let Err(p) = guarded(|| exec(&plan, &mut ctx)) {
                            // a panic outside the executors' own guards: report it against the property
                            // being exercised instead of killing the batch
                            ctx.violate(prop, "escaped_panic", &plan.world, format!("panic {:?} at {}", p.msg, p.short_loc()));
                        }
                        slot.0.store(u64::MAX, Ordering::SeqCst);
                        agg.runs += 1;
                        for (k, v) in &ctx.counters {
                            *agg.counters.entry(k).or_insert(0) += v;
                        }
                        agg.cells.extend(ctx.cells.iter().copied());
                        for (k, v) in &ctx.cell_names {
                            if !agg.cell_names.contains_key(k) {
                                agg.cell_names.insert(*k, v.clone());
                            }
                        }
                        if ctx.nontrivial {
                            agg.nontrivial += 1;
                            agg.sigs.insert(ctx.hist_sig);
                        }
                        agg.sim_ns += ctx.sim_ns;
                        agg.trace_xor ^= ctx.trace_hash.rotate_left((idx % 63) as u32);
                        agg.trace_sum = agg.trace_sum.wrapping_add(ctx.trace_hash ^ idx);
                        let mut any = false;
                        for v in &ctx.violations {
                            if only_prop && v.prop != prop {
                                continue;
                            }
                            any = true;
                            let sig = v.sig();
                            let replace = match agg.failures.get(&sig) {
                                None => true,
                                Some((i, _, _)) => idx < *i,
                            };
                            if replace {
                                agg.failures
                                    .insert(sig, (idx, plan.clone(), v.detail.clone()));
                            }
                        }
                        if any {
                            agg.failing_runs += 1;
                        }
                        if idx < 3 {
                            agg.samples.push((idx, plan));
                        }
                    }
                }
                aggs.lock().unwrap().push(agg);
                finished.fetch_add(1, Ordering::SeqCst);
            });
        }
    });
    let mut out = BatchResult {
        runs: 0,
        counters: BTreeMap::new(),
        cells: BTreeSet::new(),
        cell_names: BTreeMap::new(),
        distinct_sigs: BTreeSet::new(),
        nontrivial_runs: 0,
        sim_ns: 0,
        trace_xor: 0,
        trace_sum: 0,
        failures: BTreeMap::new(),
        failing_runs: 0,
        samples: Vec::new(),
    };
    let mut samples: Vec<(u64, Plan)> = Vec::new();
    for agg in aggs.into_inner().unwrap() {
        out.runs += agg.runs;
        for (k, v) in agg.counters {
            *out.counters.entry(k).or_insert(0) += v;
        }
        out.cells.extend(agg.cells);
        out.cell_names.extend(agg.cell_names);
        out.distinct_sigs.extend(agg.sigs);
        out.nontrivial_runs += agg.nontrivial;
        out.sim_ns += agg.sim_ns;
        out.trace_xor ^= agg.trace_xor;
        out.trace_sum = out.trace_sum.wrapping_add(agg.trace_sum);
        out.failing_runs += agg.failing_runs;
        for (sig, (idx, plan, detail)) in agg.failures {
            let replace = match out.failures.get(&sig) {
                None => true,
                Some((i, _, _)) => idx < *i,
            };
            if replace {
                out.failures.insert(sig, (idx, plan, detail));
            }
        }
        samples.extend(agg.samples);
    }
    samples.sort_by_key(|(i, _)| *i);
    out.samples = samples.into_iter().map(|(_, p)| p).collect();
    out
}

// ---------------------------------------------------------------- minimisation

pub fn reproduces(plan: &Plan, sig: &str, exec: ExecFn) -> Option<String> {
    let mut ctx = Ctx::new(false);
    if let Err(p) = guarded(|| exec(plan, &mut ctx)) {
        ctx.violate(&plan.prop, "escaped_panic", &plan.world, format!("panic {:?} at {}", p.msg, p.short_loc()));
    }
    ctx.violations
        .iter()
        .find(|v| v.sig() == sig)
        .map(|v| v.detail.clone())
}

/// ddmin over the op list, then single-op removal to a fixpoint, then the world's own
/// simplification candidates, all while the *same signature* keeps failing.
pub fn minimise(plan: &Plan, sig: &str, exec: ExecFn, simplify: SimplifyFn) -> Plan {
    let mut best = plan.clone();
    let mut budget: u32 = 4000;
    // ddmin
    let mut n = 2usize;
    while best.ops.len() >= 2 && budget > 0 {
        let len = best.ops.len();
        let chunk = (len + n - 1) / n;
        let mut reduced = false;
        let mut i = 0;
        while i < len && budget > 0 {
            let mut cand = best.clone();
            let hi = (i + chunk).min(len);
            cand.ops.drain(i..hi);
            budget -= 1;
            if reproduces(&cand, sig, exec).is_some() {
                best = cand;
                n = (n - 1).max(2);
                reduced = true;
                break;
            }
            i += chunk;
        }
        if !reduced {
            if n >= len {
                break;
            }
            n = (n * 2).min(len);
        }
    }
    // single-op removal + simplification to a fixpoint
    loop {
        let mut changed = false;
        let mut i = 0;
        while i < best.ops.len() && budget > 0 {
            let mut cand = best.clone();
            cand.ops.remove(i);
            budget -= 1;
            if reproduces(&cand, sig, exec).is_some() {
                best = cand;
                changed = true;
            } else {
                i += 1;
            }
        }
        let mut progress = true;
        while progress && budget > 0 {
            progress = false;
            for cand in simplify(&best) {
                if budget == 0 {
                    break;
                }
                budget -= 1;
                if cand != best && reproduces(&cand, sig, exec).is_some() {
                    best = cand;
                    progress = true;
                    changed = true;
                    break;
                }
            }
        }
        if !changed || budget == 0 {
            break;
        }
    }
    best
}

// ---------------------------------------------------------------- tiny JSON writer

pub fn jstr(s: &str) -> String {
    let mut o = String::with_capacity(s.len() + 2);
    o.push('"');
    for c in s.chars() {
        match c {
            '"' => o.push_str("\\\""),
            '\\' => o.push_str("\\\\"),
            '\n' => o.push_str("\\n"),
            '\r' => o.push_str("\\r"),
            '\t' => o.push_str("\\t"),
            c if (c as u32) < 0x20 => o.push_str(&format!("\\u{:04x}", c as u32)),
            c => o.push(c),
        }
    }
    o.push('"');
    o
}

pub fn jmap_u64(m: &BTreeMap<&'static str, u64>, prefix: &str) -> String {
    let mut parts = Vec::new();
    for (k, v) in m {
        if let Some(rest) = k.strip_prefix(prefix) {
            parts.push(format!("{}:{}", jstr(rest), v));
        }
    }
    format!("{{{}}}", parts.join(","))
}

impl BatchResult {
    /// distinct cells per named coverage space
    pub fn cells_by_space(&self) -> BTreeMap<String, u64> {
        let mut m = BTreeMap::new();
        for (sp, _) in &self.cells {
            let name = self.cell_names.get(sp).cloned().unwrap_or_else(|| format!("{:x}", sp));
            *m.entry(name).or_insert(0) += 1;
        }
        m
    }
}
