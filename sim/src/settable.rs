//! W-settable (C15): settable bookkeeping, following, history adapters, constant getter,
//! time getter from getter — op histories with rejected sets, erroring followed getters,
//! clock jumps (forwards and backwards) and clock errors, against a small reference model.

use crate::core::{guarded, Ctx, Tier};
use crate::plan::{fb, Plan};
use crate::rng::Rng;
use crate::stubs::*;
use crate::vals::*;
use rrtk::*;
use std::cell::{Cell, RefCell};
use std::rc::Rc;

// ------------------------------------------------------------------ harness types

/// the value a motor armed with re-entrancy mode 5 sets on itself from inside impl_set
const NESTED_FALLBACK: f32 = 0.015625;

/// A user-defined settable that relies on the trait's default methods only.
struct FaultyMotor {
    data: SettableData<f32, E>,
    log: Rc<RefCell<Vec<u32>>>,
    reject: Rc<Cell<Option<u8>>>,
    /// one-shot re-entrancy armed by the plan: the next `impl_set` itself calls
    /// 1 `stop_following`, 2 `follow(alternative)`, 3 `follow(primary)` (a motor with a cutoff /
    /// fall-back source) before accepting or rejecting
    reenter: Rc<Cell<u8>>,
    primary: Reference<dyn Getter<f32, E>>,
    alternative: Reference<dyn Getter<f32, E>>,
}
impl Settable<f32, E> for FaultyMotor {
    fn impl_set(&mut self, value: f32) -> NothingOrError<E> {
        match self.reenter.replace(0) {
            1 => self.stop_following(),
            2 => {
                let g = self.alternative.clone();
                self.follow(g)
            }
            3 => {
                let g = self.primary.clone();
                self.follow(g)
            }
            // 4: acknowledge the consumed setpoint at its source(s): take a mutable borrow of the
            // followed getters while the forwarded set is running
            4 => {
                let _ = self.primary.borrow_mut().update();
                let _ = self.alternative.borrow_mut().update();
            }
            // 5: a clamping motor: it first applies a fall-back request of its own through the public
            // `set` (which succeeds), then treats the outer request as usual (accept or reject)
            5 => {
                let held = self.reject.replace(None);
                let _ = self.set(NESTED_FALLBACK);
                self.reject.set(held);
            }
            _ => {}
        }
        if let Some(k) = self.reject.get() {
            return Err(err_of(k));
        }
        self.log.borrow_mut().push(value.to_bits());
        Ok(())
    }
    fn get_settable_data_ref(&self) -> &SettableData<f32, E> {
        &self.data
    }
    fn get_settable_data_mut(&mut self) -> &mut SettableData<f32, E> {
        &mut self.data
    }
}
impl Updatable<E> for FaultyMotor {
    fn update(&mut self) -> NothingOrError<E> {
        self.update_following_data()
    }
}

/// Records the time it is asked for; returns a value that encodes that time, stamped
/// with a *different* time so that restamping is observable.
struct RecordingHistory {
    asked: Rc<RefCell<Vec<i64>>>,
    absent: Rc<Cell<bool>>,
    updates: Rc<Cell<u64>>,
    update_err: Rc<Cell<Option<u8>>>,
    /// the clock the adapter reads, and whether this history takes exclusive access to it while it
    /// answers (a history that resynchronises the clock it shares with its adapter; the adapter has read
    /// the clock by then and has no reason to still hold it)
    clock: Reference<SimClock>,
    touch_clock: Rc<Cell<bool>>,
}
fn encode(t: i64) -> f32 {
    (t.rem_euclid(1_000_003)) as f32
}
impl History<f32, E> for RecordingHistory {
    fn get(&self, time: Time) -> Option<Datum<f32>> {
        self.asked.borrow_mut().push(time.0);
        if self.touch_clock.get() {
            let _exclusive = self.clock.borrow_mut();
        }
        if self.absent.get() {
            None
        } else {
            Some(Datum::new(Time(time.0 ^ 0x5555), encode(time.0)))
        }
    }
}
impl Updatable<E> for RecordingHistory {
    fn update(&mut self) -> NothingOrError<E> {
        self.updates.set(self.updates.get() + 1);
        if self.touch_clock.get() {
            let _exclusive = self.clock.borrow_mut();
        }
        match self.update_err.get() {
            Some(k) => Err(err_of(k)),
            None => Ok(()),
        }
    }
}

// ------------------------------------------------------------------ model

#[derive(Clone, Copy, PartialEq, Debug)]
enum Fg {
    None,
    Err(u8),
    Some(i64, u32),
}

struct SModel {
    last: Option<u32>,
    following: bool,
}

fn st_of(bits: u32) -> State {
    let x = f32::from_bits(bits);
    State::new_raw(x, x + 1.0, x - 1.0)
}

pub fn execute(plan: &Plan, ctx: &mut Ctx) {
    let clock = ClockHandle::new(plan.get("t0"));
    let clock_ref: Reference<SimClock> = rc_ref_cell_reference(clock.clock());
    // followed getters, one per settable
    let fg_f: Vec<SensorHandle<f32>> = (0..2).map(|_| SensorHandle::new()).collect();
    // a second getter each that the first two settables can be told to follow instead
    let fg_alt: Vec<SensorHandle<f32>> = (0..2).map(|_| SensorHandle::new()).collect();
    let mut alt_script = [Fg::None; 2];
    let mut follows_alt = [false; 2];
    let fg_s = SensorHandle::<Datum<State>>::new();
    let fg_c = SensorHandle::<Datum<Command>>::new();
    let mut fg_script = [Fg::None; 4];
    // settables
    let motor_log = Rc::new(RefCell::new(Vec::<u32>::new()));
    let motor_rej = Rc::new(Cell::new(None));
    let motor_reenter = Rc::new(Cell::new(0u8));
    let mut motor = FaultyMotor {
        data: SettableData::new(),
        log: motor_log.clone(),
        reject: motor_rej.clone(),
        reenter: motor_reenter.clone(),
        primary: dyn_getter::<f32, _>(fg_f[0].sensor()),
        alternative: dyn_getter::<f32, _>(fg_alt[0].sensor()),
    };
    let cg_init = plan.getf("cg_init");
    let mut cg: ConstantGetter<f32, SimClock, E> = ConstantGetter::new(clock_ref.clone(), cg_init);
    let term = Terminal::<E>::new();
    let tg = TimeGetterFromGetter::<f32, dyn Getter<f32, E>, E>::new(dyn_getter::<f32, _>(fg_f[0].sensor()));
    let mut model = [
        SModel { last: None, following: false },
        SModel { last: None, following: false },
        SModel { last: None, following: false },
        SModel { last: None, following: false },
    ];
    let mut cg_value = cg_init.to_bits();
    let mut motor_expect: Vec<u32> = Vec::new();
    let mut clk: Result<i64, u8> = Ok(plan.get("t0"));
    // history adapters: each HNEW consumes one pre-allocated history
    let n_hist = plan.ops.iter().filter(|o| o.code == "HNEW").count();
    let asked = Rc::new(RefCell::new(Vec::<i64>::new()));
    let habsent = Rc::new(Cell::new(false));
    let hupdates = Rc::new(Cell::new(0u64));
    let hupderr = Rc::new(Cell::new(None));
    let htouch = Rc::new(Cell::new(false));
    // HOLD: the caller keeps its own read-only view of the shared clock (a shared borrow) alive across the
    // read-only calls it makes on the adapters and the constant getter
    let mut hold_view = false;
    let mut histories: Vec<RecordingHistory> = (0..n_hist)
        .map(|_| RecordingHistory { asked: asked.clone(), absent: habsent.clone(), updates: hupdates.clone(), update_err: hupderr.clone(), clock: clock_ref.clone(), touch_clock: htouch.clone() })
        .collect();
    let mut hist_iter = histories.iter_mut();
    let mut adapter: Option<GetterFromHistory<f32, SimClock, E>> = None;
    let mut offset: i64 = 0;
    // a second adapter over a *real* History: a MotionProfile (rest-to-rest move, always accepted)
    let mk_profile = || {
        // rest-to-rest move long enough for a constant-velocity phase: the constructor accepts it
        let v = plan.getf("mp_vel").abs() + 0.5;
        let a = plan.getf("mp_acc").abs() + 0.5;
        let dist = 2.0 * v * v / a + plan.getf("mp_dist").abs() + 1.0;
        MotionProfile::new(
            State::new_raw(0.0, 0.0, 0.0),
            State::new_raw(dist, 0.0, 0.0),
            Quantity::new(v, MILLIMETER_PER_SECOND),
            Quantity::new(a, MILLIMETER_PER_SECOND_SQUARED),
        )
    };
    let reference_profile = mk_profile();
    let n_mp = plan.ops.iter().filter(|o| o.code == "MPNEW").count();
    let mut profiles: Vec<MotionProfile> = (0..n_mp).map(|_| mk_profile()).collect();
    let mut prof_iter = profiles.iter_mut();
    let mut mp_adapter: Option<GetterFromHistory<Command, SimClock, E>> = None;
    let mut mp_offset: i64 = 0;
    let mut tmin = plan.get("t0");
    let mut tmax = plan.get("t0");

    for (oi, op) in plan.ops.iter().enumerate() {
        ctx.cur_op = oi;
        let s = (op.arg(0).rem_euclid(4)) as usize;
        let code = op.code.as_str();
        ctx.sig(op.code.bytes().fold(0u64, |h, b| h * 31 + b as u64) ^ (s as u64) << 40);
        let res: Result<Option<String>, crate::core::PanicInfo> = guarded(|| -> Option<String> {
            match code {
                "CLK" => {
                    clk = Ok(op.arg(0));
                    clock.set(Ok(Time(op.arg(0))));
                    None
                }
                // TICK k: from now on the clock is a free-running counter that advances by k ns at every
                // READ (0: stands still between operations again). Every operation below is one call into
                // the crate: what it returns and stores must belong to ONE instant, its first reading.
                "HOLD" => {
                    hold_view = op.arg(0) != 0;
                    None
                }
                "TICK" => {
                    CLOCK_TICK_PER_GET.with(|c| c.set(op.arg(0).clamp(0, 1000)));
                    None
                }
                "CLKE" => {
                    clk = Err(op.arg(0) as u8);
                    clock.set(Err(err_of(op.arg(0) as u8)));
                    None
                }
                "REJ" => {
                    motor_rej.set(if op.arg(0) == 0 { None } else { Some(op.arg(0) as u8) });
                    None
                }
                "MRE" => {
                    motor_reenter.set(op.arg(0) as u8);
                    None
                }
                "FG" => {
                    let (t, v) = (op.arg(1), op.arg(2) as u32);
                    fg_script[s] = Fg::Some(t, v);
                    match s {
                        0 | 1 => fg_f[s].set(Ok(Some(Datum::new(Time(t), f32::from_bits(v))))),
                        2 => fg_s.set(Ok(Some(Datum::new(Time(t), Datum::new(Time(t ^ 1), st_of(v)))))),
                        _ => fg_c.set(Ok(Some(Datum::new(Time(t), Datum::new(Time(t ^ 1), Command::Velocity(f32::from_bits(v))))))),
                    }
                    None
                }
                "FGN" => {
                    fg_script[s] = Fg::None;
                    match s {
                        0 | 1 => fg_f[s].set(Ok(None)),
                        2 => fg_s.set(Ok(None)),
                        _ => fg_c.set(Ok(None)),
                    }
                    None
                }
                "FGE" => {
                    let k = op.arg(1) as u8;
                    fg_script[s] = Fg::Err(k);
                    match s {
                        0 | 1 => fg_f[s].set(Err(err_of(k))),
                        2 => fg_s.set(Err(err_of(k))),
                        _ => fg_c.set(Err(err_of(k))),
                    }
                    None
                }
                "FGA" => {
                    // script the alternative getter of settable 0 / 1
                    let k = s % 2;
                    match op.arg(1) {
                        0 => {
                            alt_script[k] = Fg::None;
                            fg_alt[k].set(Ok(None));
                        }
                        _ => {
                            alt_script[k] = Fg::Some(op.arg(1), op.arg(2) as u32);
                            fg_alt[k].set(Ok(Some(Datum::new(Time(op.arg(1)), f32::from_bits(op.arg(2) as u32)))));
                        }
                    }
                    None
                }
                "FOL" => {
                    model[s].following = true;
                    if s < 2 {
                        follows_alt[s] = op.arg(1) != 0;
                    }
                    let pick = |k: usize| if follows_alt[k] { fg_alt[k].sensor() } else { fg_f[k].sensor() };
                    match s {
                        0 => motor.follow(dyn_getter::<f32, _>(pick(0))),
                        1 => cg.follow(dyn_getter::<f32, _>(pick(1))),
                        2 => <Terminal<E> as Settable<Datum<State>, E>>::follow(&mut term.borrow_mut(), dyn_getter::<Datum<State>, _>(fg_s.sensor())),
                        _ => <Terminal<E> as Settable<Datum<Command>, E>>::follow(&mut term.borrow_mut(), dyn_getter::<Datum<Command>, _>(fg_c.sensor())),
                    }
                    None
                }
                "UNF" => {
                    model[s].following = false;
                    match s {
                        0 => motor.stop_following(),
                        1 => cg.stop_following(),
                        2 => <Terminal<E> as Settable<Datum<State>, E>>::stop_following(&mut term.borrow_mut()),
                        _ => <Terminal<E> as Settable<Datum<Command>, E>>::stop_following(&mut term.borrow_mut()),
                    }
                    None
                }
                "SET" => {
                    let v = op.arg(1) as u32;
                    let t = op.arg(2);
                    let (ret, want) = match s {
                        0 => {
                            // (a re-entrant follow change armed for the next impl_set takes effect here)
                            match motor_reenter.get() {
                                1 => model[0].following = false,
                                2 | 3 => {
                                    model[0].following = true;
                                    follows_alt[0] = motor_reenter.get() == 2;
                                }
                                _ => {}
                            }
                            if motor_reenter.get() != 0 {
                                ctx.count("reach.reentrant_follow_change");
                            }
                            if motor_reenter.get() == 5 {
                                // the nested set succeeds whatever happens to the outer one
                                motor_expect.push(NESTED_FALLBACK.to_bits());
                                model[0].last = Some(NESTED_FALLBACK.to_bits());
                                ctx.count("reach.nested_set_inside_impl_set");
                            }
                            let r = norm_unit(&motor.set(f32::from_bits(v)));
                            let w = match motor_rej.get() {
                                Some(k) => Some(er_of(k)),
                                None => {
                                    motor_expect.push(v);
                                    model[0].last = Some(v);
                                    None
                                }
                            };
                            (r, w)
                        }
                        1 => {
                            cg_value = v;
                            model[1].last = Some(v);
                            (norm_unit(&cg.set(f32::from_bits(v))), None)
                        }
                        2 => {
                            model[2].last = Some(v);
                            (norm_unit(&term.borrow_mut().set(Datum::new(Time(t), st_of(v)))), None)
                        }
                        _ => {
                            model[3].last = Some(v);
                            (norm_unit(&term.borrow_mut().set(Datum::new(Time(t), Command::Velocity(f32::from_bits(v))))), None)
                        }
                    };
                    if ret != want {
                        return Some(format!("set_return|settable{}|set returned {:?}, expected {:?}", s, ret, want));
                    }
                    None
                }
                "UPD" => {
                    let armed = motor_reenter.get();
                    // Terminal::update handles command (3) then state (2); model them in that order
                    let order: Vec<usize> = match s {
                        0 => vec![0],
                        1 => vec![1],
                        _ => vec![3, 2],
                    };
                    let ret = match s {
                        0 => norm_unit(&motor.update()),
                        1 => norm_unit(&cg.update()),
                        _ => norm_unit(&term.borrow_mut().update()),
                    };
                    let mut want: Option<Er> = None;
                    for k in order {
                        if !model[k].following {
                            continue;
                        }
                        let followed = if k < 2 && follows_alt[k] { alt_script[k] } else { fg_script[k] };
                        match followed {
                            Fg::None => {}
                            Fg::Err(e) => {
                                want = Some(er_of(e));
                                break;
                            }
                            Fg::Some(_, v) => {
                                if k == 0 {
                                    // the forwarded set reaches impl_set: an armed re-entrant follow
                                    // change happens inside this update and must stick
                                    match armed {
                                        1 => model[0].following = false,
                                        2 | 3 => {
                                            model[0].following = true;
                                            follows_alt[0] = armed == 2;
                                        }
                                        _ => {}
                                    }
                                    if armed != 0 {
                                        ctx.count("reach.reentrant_follow_change");
                                    }
                                    if armed == 5 {
                                        motor_expect.push(NESTED_FALLBACK.to_bits());
                                        model[0].last = Some(NESTED_FALLBACK.to_bits());
                                        ctx.count("reach.nested_set_inside_impl_set");
                                    }
                                    if let Some(r) = motor_rej.get() {
                                        want = Some(er_of(r));
                                        break;
                                    }
                                    motor_expect.push(v);
                                }
                                if k == 1 {
                                    cg_value = v;
                                }
                                model[k].last = Some(v);
                            }
                        }
                    }
                    if ret != want {
                        return Some(format!("follow_update_return|settable{}|update returned {:?}, expected {:?}", s, ret, want));
                    }
                    None
                }
                "HNEW" => {
                    let h = hist_iter.next().expect("pre-allocated history");
                    let _view = if hold_view { Some(clock_ref.borrow()) } else { None };
                    let form = op.arg(0);
                    let arg = op.arg(1);
                    let made: Result<GetterFromHistory<f32, SimClock, E>, Error<E>> = match form {
                        0 => Ok(GetterFromHistory::new_no_delta(h, clock_ref.clone())),
                        1 => GetterFromHistory::new_start_at_zero(h, clock_ref.clone()),
                        2 => GetterFromHistory::new_custom_start(h, clock_ref.clone(), Time(arg)),
                        _ => Ok(GetterFromHistory::new_custom_delta(h, clock_ref.clone(), Time(arg))),
                    };
                    let want_off: Result<i64, u8> = match (form, clk) {
                        (0, _) => Ok(0),
                        (1, Ok(now)) => Ok(-now),
                        (2, Ok(now)) => Ok(arg - now),
                        (1 | 2, Err(e)) => Err(e),
                        _ => Ok(arg),
                    };
                    match (made, want_off) {
                        (Ok(a), Ok(o)) => {
                            adapter = Some(a);
                            offset = o;
                            None
                        }
                        (Err(e), Err(w)) if Er::from_rrtk(e) == er_of(w) => None,
                        (m, w) => Some(format!("adapter_constructor|form{}|constructor returned {}, expected offset/err {:?}", form, if m.is_ok() { "Ok".to_string() } else { "Err".to_string() }, w)),
                    }
                }
                "MPNEW" => {
                    let h = prof_iter.next().expect("pre-allocated profile");
                    let _view = if hold_view { Some(clock_ref.borrow()) } else { None };
                    let arg = op.arg(1);
                    let made: Result<GetterFromHistory<Command, SimClock, E>, Error<E>> = match op.arg(0) {
                        0 => Ok(GetterFromHistory::new_no_delta(h, clock_ref.clone())),
                        1 => GetterFromHistory::new_start_at_zero(h, clock_ref.clone()),
                        2 => GetterFromHistory::new_custom_start(h, clock_ref.clone(), Time(arg)),
                        _ => Ok(GetterFromHistory::new_custom_delta(h, clock_ref.clone(), Time(arg))),
                    };
                    let want_off: Result<i64, u8> = match (op.arg(0), clk) {
                        (0, _) => Ok(0),
                        (1, Ok(now)) => Ok(-now),
                        (2, Ok(now)) => Ok(arg - now),
                        (1 | 2, Err(e)) => Err(e),
                        _ => Ok(arg),
                    };
                    match (made, want_off) {
                        (Ok(a), Ok(o)) => {
                            mp_adapter = Some(a);
                            mp_offset = o;
                            None
                        }
                        (Err(e), Err(w)) if Er::from_rrtk(e) == er_of(w) => None,
                        (m, w) => Some(format!("adapter_constructor|motion_profile_form{}|constructor returned {}, expected offset/err {:?}", op.arg(0), if m.is_ok() { "Ok" } else { "Err" }, w)),
                    }
                }
                "MPGET" => {
                    let _view = if hold_view { Some(clock_ref.borrow()) } else { None };
                    if let Some(a) = mp_adapter.as_ref() {
                        let got = norm(&a.get());
                        let want = match clk {
                            Err(e) => Out::Err(er_of(e)),
                            Ok(now) => match <MotionProfile as History<Command, E>>::get(&reference_profile, Time(now + mp_offset)) {
                                Some(d) => Out::Some(now, d.value.to_val()),
                                None => Out::None,
                            },
                        };
                        if got != want {
                            return Some(format!("adapter_get|motion_profile|get returned {}, expected {} (profile queried at now {:?} + offset {})", got.show(), want.show(), clk, mp_offset));
                        }
                    }
                    None
                }
                "HDELTA" => {
                    if let Some(a) = adapter.as_mut() {
                        a.set_delta(Time(op.arg(0)));
                        offset = op.arg(0);
                    }
                    None
                }
                "HTIME" => {
                    let _view = if hold_view { Some(clock_ref.borrow()) } else { None };
                    if let Some(a) = adapter.as_mut() {
                        let r = norm_unit(&a.set_time(Time(op.arg(0))));
                        let want = match clk {
                            Ok(now) => {
                                offset = op.arg(0) - now;
                                None
                            }
                            Err(e) => Some(er_of(e)),
                        };
                        if r != want {
                            return Some(format!("adapter_set_time|set_time|returned {:?}, expected {:?}", r, want));
                        }
                    }
                    None
                }
                "HABS" => {
                    habsent.set(op.arg(0) != 0);
                    None
                }
                // HTOUCH k: from now on the history takes exclusive access to the shared clock while it answers
                "HTOUCH" => {
                    htouch.set(op.arg(0) != 0);
                    None
                }
                "HUERR" => {
                    hupderr.set(if op.arg(0) == 0 { None } else { Some(op.arg(0) as u8) });
                    None
                }
                "CKUERR" => {
                    clock.update_err.set(if op.arg(0) == 0 { None } else { Some(op.arg(0) as u8) });
                    None
                }
                "HUPD" => {
                    if let Some(a) = adapter.as_mut() {
                        let before = hupdates.get();
                        let cbefore = clock.updates.get();
                        let r = norm_unit(&a.update());
                        // the history is updated first, then the clock; the first error is returned
                        let want = hupderr.get().or(clock.update_err.get()).map(er_of);
                        let clock_updates = clock.updates.get() - cbefore;
                        if hupderr.get().is_none() && clock_updates != 1 {
                            return Some(format!("adapter_update|clock|the adapter updated its clock {} times", clock_updates));
                        }
                        if r != want || hupdates.get() != before + 1 {
                            return Some(format!("adapter_update|update|returned {:?} (history updated {} times), expected {:?}", r, hupdates.get() - before, want));
                        }
                    }
                    None
                }
                "HGET" => {
                    // (not while the history itself takes exclusive access to the clock: that is HTOUCH's case)
                    let _view = if hold_view && !htouch.get() { Some(clock_ref.borrow()) } else { None };
                    if let Some(a) = adapter.as_ref() {
                        let n0 = asked.borrow().len();
                        // HGET 1: the clock is a free-running counter during this call (advances at every
                        // read): the result must belong to ONE instant - the first reading
                        let ticking = op.arg(0) == 1;
                        let tick_before = CLOCK_TICK_PER_GET.with(|c| c.get());
                        if ticking {
                            CLOCK_TICK_PER_GET.with(|c| c.set(7));
                        }
                        let got = norm(&a.get());
                        CLOCK_TICK_PER_GET.with(|c| c.set(tick_before));
                        if ticking {
                            ctx.count("reach.adapter_get_on_ticking_clock");
                        }
                        let new_asked: Vec<i64> = asked.borrow()[n0..].to_vec();
                        match clk {
                            Err(e) => {
                                if got != Out::Err(er_of(e)) {
                                    return Some(format!("adapter_get|clock_error|get returned {} although the clock fails with E{}", got.show(), e));
                                }
                            }
                            Ok(now) => {
                                let at = now + offset;
                                if new_asked != vec![at] {
                                    return Some(format!("adapter_get|history_time|history was asked for {:?}, expected exactly [{}] (now {} + offset {})", new_asked, at, now, offset));
                                }
                                let want = if habsent.get() { Out::None } else { Out::Some(now, Val::F(fbits(encode(at)))) };
                                if got != want {
                                    return Some(format!("adapter_get|restamp|get returned {}, expected {}", got.show(), want.show()));
                                }
                            }
                        }
                        if ticking {
                            // the counter has moved on: follow it
                            if let Ok(t) = clock.peek() {
                                clk = Ok(t.0);
                            }
                        }
                    }
                    None
                }
                "CG" => {
                    let _view = if hold_view { Some(clock_ref.borrow()) } else { None };
                    let got = norm(&cg.get());
                    let want = match clk {
                        Err(e) => Out::Err(er_of(e)),
                        Ok(now) => Out::Some(now, Val::F(fbits(f32::from_bits(cg_value)))),
                    };
                    if got != want {
                        return Some(format!("constant_getter|get|returned {}, expected {}", got.show(), want.show()));
                    }
                    None
                }
                "TG" => {
                    let got = match tg.get() {
                        Ok(t) => Ok(t.0),
                        Err(e) => Err(Er::from_rrtk(e)),
                    };
                    let want = match fg_script[0] {
                        Fg::None => Err(Er::FromNone),
                        Fg::Err(e) => Err(er_of(e)),
                        Fg::Some(t, _) => Ok(t),
                    };
                    if got != want {
                        return Some(format!("time_getter_from_getter|get|returned {:?}, expected {:?}", got, want));
                    }
                    None
                }
                _ => None,
            }
        });
        match res {
            Err(p) => {
                ctx.violate("C15", "panic", code, format!("op {} ({} {:?}): panic {:?} at {}", oi, code, op.a, p.msg, p.short_loc()));
                return;
            }
            Ok(Some(msg)) => {
                let mut it = msg.splitn(3, '|');
                let oracle = it.next().unwrap_or("oracle").to_string();
                let comp = it.next().unwrap_or("").to_string();
                let detail = it.next().unwrap_or("").to_string();
                ctx.violate("C15", &oracle, &comp, format!("op {} ({} {:?}): {}", oi, code, op.a, detail));
            }
            Ok(None) => {}
        }
        if CLOCK_TICK_PER_GET.with(|c| c.get()) != 0 {
            // the counter has moved on during the call: follow it
            if let (Ok(_), Ok(t)) = (clk, clock.peek()) {
                clk = Ok(t.0);
            }
            if code != "TICK" {
                ctx.count("reach.call_on_ticking_clock");
            }
        }
        // fault / reach counters (from the plan and the model only)
        match code {
            "CLK" => {
                let t = op.arg(0);
                if t < tmax {
                    ctx.count("fault.clock_jump_back");
                } else {
                    ctx.count("fault.clock_jump");
                }
                tmin = tmin.min(t);
                tmax = tmax.max(t);
            }
            "CLKE" => ctx.count("fault.clock_err"),
            "REJ" if op.arg(0) != 0 => ctx.count("fault.reject"),
            "FGN" => ctx.count("fault.absent"),
            "FGE" => ctx.count("fault.err1"),
            "FOL" => ctx.count("fault.follow"),
            "UNF" => ctx.count("fault.unfollow"),
            "SET" if s == 0 && motor_rej.get().is_some() => {
                ctx.count("reach.set_rejected");
                if model[0].following {
                    ctx.count("reach.set_rejected_while_following");
                }
                ctx.nontrivial = true;
            }
            "HTIME" if adapter.is_some() => {
                ctx.count("reach.set_time_after_clock_moved");
                if hold_view {
                    ctx.count("reach.adapter_call_while_caller_views_clock");
                }
            }
            "HGET" if adapter.is_some() => {
                if htouch.get() {
                    ctx.count("reach.history_touches_shared_clock");
                }
                ctx.count("reach.adapter_get");
                ctx.nontrivial = true;
            }
            "MPGET" if mp_adapter.is_some() => {
                ctx.count("reach.motion_profile_adapter_get");
                ctx.nontrivial = true;
            }
            "UPD" if model[s].following || (s >= 2 && (model[2].following || model[3].following)) => {
                ctx.count("reach.update_while_following");
                ctx.nontrivial = true;
            }
            _ => {}
        }
        // invariants after every op: last requests and the motor's log
        let lr0 = motor.get_last_request().map(|x| x.to_bits());
        let lr1 = cg.get_last_request().map(|x| x.to_bits());
        let lr2 = <Terminal<E> as Settable<Datum<State>, E>>::get_last_request(&term.borrow()).map(|d| d.value.position.to_bits());
        let lr3 = <Terminal<E> as Settable<Datum<Command>, E>>::get_last_request(&term.borrow()).map(|d| cmd_bits(&d.value).1);
        let got = [lr0, lr1, lr2, lr3];
        for k in 0..4 {
            if got[k] != model[k].last {
                ctx.violate(
                    "C15",
                    "last_request",
                    &format!("settable{}", k),
                    format!("op {} ({} {:?}): get_last_request is {:?}, the last successful set was {:?}", oi, code, op.a, got[k].map(f32::from_bits), model[k].last.map(f32::from_bits)),
                );
            }
        }
        if *motor_log.borrow() != motor_expect {
            ctx.violate(
                "C15",
                "forwarded_values",
                "settable0",
                format!("op {} ({} {:?}): the motor received {:?}, expected {:?}", oi, code, op.a, motor_log.borrow().iter().map(|b| f32::from_bits(*b)).collect::<Vec<_>>(), motor_expect.iter().map(|b| f32::from_bits(*b)).collect::<Vec<_>>()),
            );
            motor_expect = motor_log.borrow().clone();
        }
        ctx.trace(&format!("{} {} {:?} lr={:?}", oi, code, op.a, got));
    }
    ctx.sim_ns += (tmax as i128 - tmin as i128).max(0);
}

pub fn generate(prop: &str, tier: Tier, rng: &mut Rng, seed: u64, run: u64) -> Plan {
    let mut plan = Plan::new("settable", prop, seed, run);
    let lim: i64 = 1 << 60;
    let big = rng.chance(0.3);
    let tval = |rng: &mut Rng| -> i64 {
        if big {
            match rng.below(4) {
                0 => rng.range(-lim, lim),
                1 => lim - rng.range(0, 1000),
                2 => -lim + rng.range(0, 1000),
                _ => rng.range(-1_000_000, 1_000_000),
            }
        } else {
            rng.range(-1_000_000_000_000, 1_000_000_000_000)
        }
    };
    plan.set("t0", tval(rng));
    plan.setf("cg_init", rng.moderate_f32());
    plan.setf("mp_dist", rng.mag_f32(1.0, 500.0));
    plan.setf("mp_vel", rng.mag_f32(0.5, 50.0));
    plan.setf("mp_acc", rng.mag_f32(0.5, 50.0));
    // history times for the motion profile: around the interesting few seconds
    let mp_t = |rng: &mut Rng| -> i64 {
        match rng.below(4) {
            0 => rng.range(-2_000_000_000, 0),
            1 => rng.range(0, 5_000_000_000),
            2 => rng.range(0, 200_000_000_000),
            _ => 0,
        }
    };
    let n = rng.range(1, if tier == Tier::Quick { 24 } else { 40 });
    let fault = *rng.pick(&[0.0, 0.1, 0.25]);
    let mut uniq = 1.0f32;
    // many runs start inside the interesting regime: following, adapter constructed
    if rng.chance(0.5) {
        for s in 0..4 {
            if rng.chance(0.5) {
                plan.push("FOL", &[s]);
                uniq += 1.0;
                plan.push("FG", &[s, tval(rng), fb(uniq)]);
            }
        }
    }
    // in a fifth of the runs the clock is, for stretches, a free-running counter
    let ticking_run = rng.chance(0.2);
    if ticking_run && rng.chance(0.5) {
        plan.push("TICK", &[7]);
    }
    if rng.chance(0.5) {
        plan.push("HNEW", &[rng.below(4) as i64, tval(rng)]);
    }
    for _ in 0..n {
        let s = rng.below(4) as i64;
        uniq += 1.0;
        match rng.below(20) {
            0 | 1 => {
                plan.push("CLK", &[tval(rng)]);
                if ticking_run && rng.chance(0.5) {
                    plan.push("TICK", &[*rng.pick(&[0, 1, 7, 7, 1000])]);
                }
            }
            2 => {
                if rng.chance(fault * 2.0) {
                    plan.push("CLKE", &[rng.range(1, 3)]);
                } else {
                    plan.push("CLK", &[tval(rng)]);
                }
            }
            3 | 4 => plan.push("SET", &[s, fb(uniq), tval(rng)]),
            5 => {
                if rng.chance(0.2) {
                    // the motor changes what it follows from inside its next impl_set
                    plan.push("MRE", &[rng.range(1, 5)]);
                } else {
                    plan.push("REJ", &[if rng.chance(0.5 + fault) { rng.range(1, 3) } else { 0 }]);
                }
            }
            6 => {
                // follow the first or the alternative getter (following twice replaces the getter)
                let alt = rng.below(2) as i64;
                if alt == 1 {
                    uniq += 1.0;
                    plan.push("FGA", &[s, tval(rng) | 1, fb(uniq)]);
                }
                plan.push("FOL", &[s, alt]);
            }
            7 => plan.push("UNF", &[s]),
            8 | 9 => {
                let r = rng.unit();
                if r < fault {
                    plan.push("FGN", &[s]);
                } else if r < 2.0 * fault {
                    plan.push("FGE", &[s, rng.range(1, 3)]);
                } else {
                    plan.push("FG", &[s, tval(rng), fb(uniq)]);
                }
            }
            10 | 11 | 12 => plan.push("UPD", &[s]),
            13 => plan.push("HNEW", &[rng.below(4) as i64, tval(rng)]),
            14 => plan.push("HDELTA", &[tval(rng)]),
            15 => {
                // sometimes exactly the current clock value (offset becomes zero)
                let cur = plan.ops.iter().rev().find(|o| o.code == "CLK").map(|o| o.arg(0)).unwrap_or(plan.get("t0"));
                if rng.chance(0.3) {
                    plan.push("HOLD", &[rng.below(2) as i64]);
                }
                plan.push("HTIME", &[if rng.chance(0.25) { cur } else { tval(rng) }]);
            }
            16 | 17 => {
                if rng.chance(0.2) {
                    plan.push("HABS", &[rng.below(2) as i64]);
                }
                if rng.chance(0.15) {
                    plan.push("HTOUCH", &[rng.below(2) as i64]);
                }
                if rng.chance(0.15) {
                    plan.push("HOLD", &[rng.below(2) as i64]);
                }
                if rng.chance(0.15) {
                    plan.push("HUERR", &[if rng.chance(0.5) { 0 } else { rng.range(1, 3) }]);
                    if rng.chance(0.5) {
                        plan.push("CKUERR", &[if rng.chance(0.5) { 0 } else { rng.range(1, 3) }]);
                    }
                    plan.push("HUPD", &[]);
                }
                plan.push("HGET", &[if rng.chance(0.25) { 1 } else { 0 }]);
            }
            18 => {
                if rng.chance(0.5) {
                    plan.push("CG", &[]);
                } else {
                    if rng.chance(0.4) {
                        plan.push("MPNEW", &[rng.below(4) as i64, mp_t(rng)]);
                    }
                    plan.push("MPGET", &[]);
                }
            }
            _ => plan.push("TG", &[]),
        }
    }
    plan
}

pub fn simplify(plan: &Plan) -> Vec<Plan> {
    let mut out = Vec::new();
    if plan.get("t0") != 0 {
        let mut p = plan.clone();
        p.set("t0", 0);
        out.push(p);
    }
    for (i, op) in plan.ops.iter().enumerate() {
        let idx: &[usize] = match op.code.as_str() {
            "CLK" | "HDELTA" | "HTIME" => &[0],
            "HNEW" => &[1],
            "FG" => &[1],
            "SET" => &[2],
            _ => &[],
        };
        for &j in idx {
            for cand in [0i64, 10, 1000] {
                if op.arg(j) != cand {
                    let mut p = plan.clone();
                    p.ops[i].a[j] = cand;
                    out.push(p);
                }
            }
        }
    }
    out
}
