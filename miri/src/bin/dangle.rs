//! C16 clause (b): "device crash" fault. A program written without `unsafe` takes a
//! terminal reference from a device or wrapper through one of its accessors, links an
//! outer terminal to it, then the device goes away (scope end, or moved out of its Box)
//! and the outer terminal is read. Each (accessor, crash kind) is one compiled-in shape;
//! the seed picks the values. Executed under Miri, one interpreter process per shape
//! (Miri stops at the first undefined behaviour it sees).
//!
//!   dangle SHAPE CRASH SEED      SHAPE 0..10, CRASH 0 = none (control), 1 = drop, 2 = move out of Box, 3 = none, after refused link operations (control)
#![forbid(unsafe_code)]

use rrtk::devices::wrappers::*;
use rrtk::devices::*;
use rrtk::*;
use std::cell::RefCell;

type E = u8;
type T<'a> = RefCell<Terminal<'a, E>>;

pub const SHAPES: [&str; 11] = [
    "Invert::get_terminal_1",
    "Invert::get_terminal_2",
    "GearTrain::get_terminal_1",
    "GearTrain::get_terminal_2",
    "Axle::get_terminal",
    "Differential::get_side_1",
    "Differential::get_side_2",
    "Differential::get_sum",
    "ActuatorWrapper::get_terminal",
    "GetterStateDeviceWrapper::get_terminal",
    "PIDWrapper::get_terminal",
];

struct Motor {
    data: SettableData<TerminalData, E>,
}
impl Settable<TerminalData, E> for Motor {
    fn impl_set(&mut self, _v: TerminalData) -> NothingOrError<E> {
        Ok(())
    }
    fn get_settable_data_ref(&self) -> &SettableData<TerminalData, E> {
        &self.data
    }
    fn get_settable_data_mut(&mut self) -> &mut SettableData<TerminalData, E> {
        &mut self.data
    }
}
impl Updatable<E> for Motor {
    fn update(&mut self) -> NothingOrError<E> {
        Ok(())
    }
}
struct FMotor {
    data: SettableData<f32, E>,
}
impl Settable<f32, E> for FMotor {
    fn impl_set(&mut self, _v: f32) -> NothingOrError<E> {
        Ok(())
    }
    fn get_settable_data_ref(&self) -> &SettableData<f32, E> {
        &self.data
    }
    fn get_settable_data_mut(&mut self) -> &mut SettableData<f32, E> {
        &mut self.data
    }
}
impl Updatable<E> for FMotor {
    fn update(&mut self) -> NothingOrError<E> {
        self.update_following_data()
    }
}
struct Enc {
    v: f32,
}
impl Getter<State, E> for Enc {
    fn get(&self) -> Output<State, E> {
        Ok(Some(Datum::new(Time(1), State::new_raw(self.v, 0.0, 0.0))))
    }
}
impl Updatable<E> for Enc {
    fn update(&mut self) -> NothingOrError<E> {
        Ok(())
    }
}

fn seed_state(t: &T, v: f32) {
    t.borrow_mut().set(Datum::new(Time(2), State::new_raw(v, 1.0, 0.0))).unwrap();
}

fn read_outer(outer: &T, expect_linked: bool, v: f32) {
    let s: Output<State, E> = outer.borrow().get();
    let c: Output<Command, E> = outer.borrow().get();
    println!("READ state={:?} command={:?}", s, c);
    if expect_linked {
        assert_eq!(s.unwrap().unwrap().value.position, v);
    }
}

/// One generic body per device type: `make` builds the device, `term` is the accessor.
macro_rules! shape {
    ($crash:expr, $v:expr, $make:expr, |$d:ident| $term:expr) => {{
        let outer = Terminal::<E>::new();
        match $crash {
            0 => {
                // control: the device outlives every use of the link
                let dev = $make;
                let $d = &dev;
                let t = $term;
                seed_state(t, $v);
                connect(t, &outer);
                read_outer(&outer, true, $v);
                outer.borrow_mut().disconnect();
                drop(dev);
            }
            3 => {
                // control: link operations attempted while somebody is reading the outer terminal are
                // refused by its RefCell (a caught panic); afterwards the program unlinks in an orderly
                // way from the device's side, the device goes away, and the survivor is used
                let third = Terminal::<E>::new();
                {
                    let dev = $make;
                    let $d = &dev;
                    let t = $term;
                    seed_state(t, $v);
                    connect(t, &outer);
                    {
                        let _reader = outer.borrow();
                        let r1 = std::panic::catch_unwind(std::panic::AssertUnwindSafe(|| t.borrow_mut().disconnect()));
                        let r2 = std::panic::catch_unwind(std::panic::AssertUnwindSafe(|| connect(t, &third)));
                        println!("REFUSED disconnect={} connect={}", r1.is_err(), r2.is_err());
                    }
                    t.borrow_mut().disconnect();
                    third.borrow_mut().disconnect();
                }
                println!("GONE orderly");
                read_outer(&outer, false, $v);
                read_outer(&third, false, $v);
                connect(&outer, &third);
                outer.borrow_mut().disconnect();
            }
            1 => {
                // crash_drop: the device's scope ends while the outer terminal is still linked to it
                {
                    let dev = $make;
                    let $d = &dev;
                let t = $term;
                    seed_state(t, $v);
                    connect(t, &outer);
                }
                println!("CRASH drop");
                read_outer(&outer, false, $v);
            }
            _ => {
                // crash_move: the device is moved out of its Box, whose allocation is freed
                let moved = {
                    let boxed = Box::new($make);
                    let $d = &*boxed;
                    let t = $term;
                    seed_state(t, $v);
                    connect(t, &outer);
                    *boxed
                };
                println!("CRASH move");
                read_outer(&outer, false, $v);
                drop(moved);
            }
        }
    }};
}

fn kv() -> PositionDerivativeDependentPIDKValues {
    let k = PIDKValues::new(1.0, 0.0, 0.0);
    PositionDerivativeDependentPIDKValues::new(k, k, k)
}

fn main() {
    let args: Vec<String> = std::env::args().collect();
    let shape: usize = args.get(1).and_then(|s| s.parse().ok()).unwrap_or(0);
    let crash: u8 = args.get(2).and_then(|s| s.parse().ok()).unwrap_or(0);
    let seed: u64 = args.get(3).and_then(|s| s.parse().ok()).unwrap_or(1);
    let v = 1.0 + (seed % 97) as f32;
    println!("SHAPE {} {} crash={} seed={}", shape, SHAPES[shape.min(10)], crash, seed);
    match shape {
        0 => shape!(crash, v, Invert::<E>::new(), |d| d.get_terminal_1()),
        1 => shape!(crash, v, Invert::<E>::new(), |d| d.get_terminal_2()),
        2 => shape!(crash, v, GearTrain::<E>::with_ratio_raw(2.0), |d| d.get_terminal_1()),
        3 => shape!(crash, v, GearTrain::<E>::with_ratio_raw(2.0), |d| d.get_terminal_2()),
        4 => shape!(crash, v, Axle::<3, E>::new(), |d| d.get_terminal((seed % 3) as usize)),
        5 => shape!(crash, v, Differential::<E>::new(), |d| d.get_side_1()),
        6 => shape!(crash, v, Differential::<E>::new(), |d| d.get_side_2()),
        7 => shape!(crash, v, Differential::<E>::new(), |d| d.get_sum()),
        8 => shape!(crash, v, ActuatorWrapper::new(Motor { data: SettableData::new() }), |d| d.get_terminal()),
        9 => shape!(crash, v, GetterStateDeviceWrapper::new(Enc { v }), |d| d.get_terminal()),
        _ => shape!(
            crash,
            v,
            PIDWrapper::new(FMotor { data: SettableData::new() }, Time(0), State::new_raw(0.0, 0.0, 0.0), Command::Position(1.0), kv()),
            |d| d.get_terminal()
        ),
    }
    println!("DONE");
}
