//! C16 clause (a) under Miri: n-ary sum / product for every arity 1..8 and absent
//! pattern, the four own/partner presence combinations of a terminal state read, and
//! Axle<0..8>::new followed by reads and updates. The interpreter reports any read of
//! an unwritten scratch slot or out-of-range index. Values are small integers, so
//! results are exact and also compared with the expected value.
//!
//!   scratch all | sample SEED COUNT | only KIND N PATTERN
#![forbid(unsafe_code)]

use rrtk::devices::*;
use rrtk::streams::math::*;
use rrtk::*;
use std::cell::RefCell;
use std::rc::Rc;

type E = u8;

struct Leaf {
    v: Option<(i64, f32)>,
}
impl Getter<f32, E> for Leaf {
    fn get(&self) -> Output<f32, E> {
        Ok(self.v.map(|(t, x)| Datum::new(Time(t), x)))
    }
}
impl Updatable<E> for Leaf {
    fn update(&mut self) -> NothingOrError<E> {
        Ok(())
    }
}

fn leaf(v: Option<(i64, f32)>) -> Reference<dyn Getter<f32, E>> {
    let rc: Rc<RefCell<dyn Getter<f32, E>>> = Rc::new(RefCell::new(Leaf { v }));
    Reference::from_rc_ref_cell(rc)
}

fn arr<const N: usize>(v: &[Reference<dyn Getter<f32, E>>]) -> [Reference<dyn Getter<f32, E>>; N] {
    std::array::from_fn(|i| v[i].clone())
}

macro_rules! nary_get {
    ($ty:ident, $v:expr) => {
        match $v.len() {
            1 => $ty::<f32, 1, E>::new(arr(&$v)).get(),
            2 => $ty::<f32, 2, E>::new(arr(&$v)).get(),
            3 => $ty::<f32, 3, E>::new(arr(&$v)).get(),
            4 => $ty::<f32, 4, E>::new(arr(&$v)).get(),
            5 => $ty::<f32, 5, E>::new(arr(&$v)).get(),
            6 => $ty::<f32, 6, E>::new(arr(&$v)).get(),
            7 => $ty::<f32, 7, E>::new(arr(&$v)).get(),
            _ => $ty::<f32, 8, E>::new(arr(&$v)).get(),
        }
    };
}

fn nary_case(sum: bool, n: usize, pattern: u32) {
    println!("CASE nary {} {} {}", if sum { "sum" } else { "prod" }, n, pattern);
    let mut leaves = Vec::new();
    let mut expect: Option<(i64, f32)> = None;
    for i in 0..n {
        if pattern >> i & 1 == 1 {
            let x = (i + 2) as f32;
            let t = 10 + i as i64;
            leaves.push(leaf(Some((t, x))));
            expect = Some(match expect {
                None => (t, x),
                Some((te, xe)) => (te.max(t), if sum { xe + x } else { xe * x }),
            });
        } else {
            leaves.push(leaf(None));
        }
    }
    let got = if sum { nary_get!(SumStream, leaves) } else { nary_get!(ProductStream, leaves) };
    let got = got.expect("no input errs").map(|d| (d.time.0, d.value));
    assert_eq!(got, expect, "n-ary result for arity {} pattern {:b}", n, pattern);
}

fn terminal_case(own: bool, partner: bool) {
    println!("CASE terminal {} {}", own as u8, partner as u8);
    let a = Terminal::<E>::new();
    let b = Terminal::<E>::new();
    connect(&a, &b);
    if own {
        a.borrow_mut().set(Datum::new(Time(5), State::new_raw(2.0, 4.0, 6.0))).unwrap();
    }
    if partner {
        b.borrow_mut().set(Datum::new(Time(7), State::new_raw(4.0, 8.0, 10.0))).unwrap();
    }
    let got: Output<State, E> = a.borrow().get();
    let want = match (own, partner) {
        (false, false) => None,
        (true, false) => Some(Datum::new(Time(5), State::new_raw(2.0, 4.0, 6.0))),
        (false, true) => Some(Datum::new(Time(7), State::new_raw(4.0, 8.0, 10.0))),
        (true, true) => Some(Datum::new(Time(7), State::new_raw(3.0, 6.0, 8.0))),
    };
    assert_eq!(got, Ok(want));
    let td: Output<TerminalData, E> = b.borrow().get();
    assert_eq!(td.unwrap().is_some(), own || partner);
}

fn axle_n<const N: usize>() {
    println!("CASE axle {}", N);
    let mut ax = Axle::<N, E>::new();
    // boundary probes: an index the axle does not have must be refused (panic), never answered
    // with a reference past the terminal array
    for bad in [N, N + 1, usize::MAX] {
        let r = std::panic::catch_unwind(std::panic::AssertUnwindSafe(|| {
            let t = ax.get_terminal(bad);
            let s: Output<State, E> = t.borrow().get();
            s
        }));
        assert!(r.is_err(), "Axle<{}>::get_terminal({}) returned a terminal", N, bad);
    }
    for i in 0..N {
        let s: Output<State, E> = ax.get_terminal(i).borrow().get();
        assert_eq!(s, Ok(None));
        let c: Output<Command, E> = ax.get_terminal(i).borrow().get();
        assert_eq!(c, Ok(None));
    }
    ax.update().unwrap();
    if N > 0 {
        ax.get_terminal(N - 1)
            .borrow_mut()
            .set(Datum::new(Time(3), State::new_raw(6.0, 0.0, 0.0)))
            .unwrap();
        ax.get_terminal(0).borrow_mut().set(Datum::new(Time(4), Command::Position(1.0))).unwrap();
        ax.update().unwrap();
        for i in 0..N {
            let s: Output<State, E> = ax.get_terminal(i).borrow().get();
            assert_eq!(s.unwrap().unwrap().value.position, 6.0);
            let c: Output<Command, E> = ax.get_terminal(i).borrow().get();
            assert_eq!(c.unwrap().unwrap().value, Command::Position(1.0));
        }
    }
}

fn axle_case(n: usize) {
    match n {
        0 => axle_n::<0>(),
        1 => axle_n::<1>(),
        2 => axle_n::<2>(),
        3 => axle_n::<3>(),
        4 => axle_n::<4>(),
        5 => axle_n::<5>(),
        6 => axle_n::<6>(),
        7 => axle_n::<7>(),
        _ => axle_n::<8>(),
    }
}

fn splitmix(s: &mut u64) -> u64 {
    *s = s.wrapping_add(0x9E3779B97F4A7C15);
    let mut z = *s;
    z = (z ^ (z >> 30)).wrapping_mul(0xBF58476D1CE4E5B9);
    z = (z ^ (z >> 27)).wrapping_mul(0x94D049BB133111EB);
    z ^ (z >> 31)
}

fn main() {
    let args: Vec<String> = std::env::args().collect();
    // expected panics (the boundary probes) should not clutter the output
    std::panic::set_hook(Box::new(|info| {
        let expected = info.to_string().contains("index out of bounds") || info.to_string().contains("terminal index");
        if !expected {
            eprintln!("{}", info);
        }
    }));
    let mut cases = 0u64;
    match args.get(1).map(|s| s.as_str()) {
        Some("only") => {
            let kind = args[2].as_str();
            let n: usize = args[3].parse().unwrap();
            let p: u32 = args.get(4).and_then(|s| s.parse().ok()).unwrap_or(0);
            match kind {
                "sum" => nary_case(true, n, p),
                "prod" => nary_case(false, n, p),
                "terminal" => terminal_case(n & 1 == 1, n & 2 == 2),
                _ => axle_case(n),
            }
            cases += 1;
        }
        Some("sample") => {
            let mut s: u64 = args[2].parse().unwrap();
            let count: u64 = args[3].parse().unwrap();
            // small arities exhaustively, larger ones sampled
            for n in 1..=3usize {
                for p in 0..(1u32 << n) {
                    nary_case(true, n, p);
                    nary_case(false, n, p);
                    cases += 2;
                }
            }
            for _ in 0..count {
                let r = splitmix(&mut s);
                let n = 4 + (r % 5) as usize;
                let p = ((r >> 8) % (1 << n)) as u32;
                nary_case(r >> 40 & 1 == 1, n, p);
                cases += 1;
            }
            for c in 0..4 {
                terminal_case(c & 1 == 1, c & 2 == 2);
                cases += 1;
            }
            for n in 0..=8 {
                axle_case(n);
                cases += 1;
            }
        }
        Some("part") => {
            // exhaustive, split into PARTS parts for parallel interpreters
            let part: u64 = args[2].parse().unwrap();
            let parts: u64 = args[3].parse().unwrap();
            let mut idx = 0u64;
            for n in 1..=8usize {
                for p in 0..(1u32 << n) {
                    for sum in [true, false] {
                        if idx % parts == part {
                            nary_case(sum, n, p);
                            cases += 1;
                        }
                        idx += 1;
                    }
                }
            }
            if part == 0 {
                for c in 0..4 {
                    terminal_case(c & 1 == 1, c & 2 == 2);
                    cases += 1;
                }
                for n in 0..=8 {
                    axle_case(n);
                    cases += 1;
                }
            }
        }
        _ => {
            eprintln!("usage: scratch only KIND N PATTERN | sample SEED COUNT | part I PARTS");
            std::process::exit(2);
        }
    }
    println!("DONE cases={}", cases);
}
