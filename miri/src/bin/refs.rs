//! C16 / C17 under Miri: clone / drop / to_dyn! / borrow histories over the reference-counted
//! and static `Reference` variants, written without `unsafe`. The interpreter reports a target
//! that is freed while a handle lives (use-after-free), a leak, or a data race.
//!
//!   refs SEED COUNT
#![forbid(unsafe_code)]

use rrtk::*;
use std::sync::atomic::{AtomicUsize, Ordering};
use std::sync::Arc;

trait Cellish {
    fn read(&self) -> i64;
    fn write(&mut self, v: i64);
}
struct Payload {
    v: i64,
    drops: Arc<AtomicUsize>,
}
impl Drop for Payload {
    fn drop(&mut self) {
        self.drops.fetch_add(1, Ordering::SeqCst);
    }
}
impl Cellish for Payload {
    fn read(&self) -> i64 {
        self.v
    }
    fn write(&mut self, v: i64) {
        self.v = v;
    }
}

enum H {
    C(Reference<Payload>),
    D(Reference<dyn Cellish>),
}
impl H {
    fn read(&self) -> i64 {
        match self {
            H::C(r) => r.borrow().read(),
            H::D(r) => r.borrow().read(),
        }
    }
    fn write(&self, v: i64) {
        match self {
            H::C(r) => r.borrow_mut().write(v),
            H::D(r) => r.borrow_mut().write(v),
        }
    }
    fn dup(&self) -> H {
        match self {
            H::C(r) => H::C(r.clone()),
            H::D(r) => H::D(r.clone()),
        }
    }
}

fn splitmix(s: &mut u64) -> u64 {
    *s = s.wrapping_add(0x9E3779B97F4A7C15);
    let mut z = *s;
    z = (z ^ (z >> 30)).wrapping_mul(0xBF58476D1CE4E5B9);
    z = (z ^ (z >> 27)).wrapping_mul(0x94D049BB133111EB);
    z ^ (z >> 31)
}

fn history(variant: u64, s: &mut u64) {
    let drops = Arc::new(AtomicUsize::new(0));
    let payload = Payload { v: 7, drops: drops.clone() };
    let first = match variant {
        0 => rc_ref_cell_reference(payload),
        1 => arc_rw_lock_reference(payload),
        _ => arc_mutex_reference(payload),
    };
    println!("CASE refs variant={}", variant);
    let mut hs: Vec<H> = vec![H::C(first)];
    let mut cell = 7i64;
    let n = 3 + splitmix(s) % 10;
    for k in 0..n {
        if hs.is_empty() {
            break;
        }
        let r = splitmix(s);
        let i = (r >> 8) as usize % hs.len();
        match r % 6 {
            0 | 1 => {
                let d = hs[i].dup();
                hs.push(d);
            }
            2 => {
                hs.swap_remove(i);
            }
            3 => {
                // to_dyn! lists only the Rc variant among the owning ones: there it must succeed. For
                // the Arc variants it may refuse (panic); if it converts, the result is one more handle
                // and is held to the same aliasing / liveness rules as every other.
                if let H::C(c) = &hs[i] {
                    let c = c.clone();
                    if variant == 0 {
                        let d: Reference<dyn Cellish> = to_dyn!(Cellish, c);
                        hs.push(H::D(d));
                    } else {
                        let r = std::panic::catch_unwind(std::panic::AssertUnwindSafe(move || {
                            let d: Reference<dyn Cellish> = to_dyn!(Cellish, c);
                            d
                        }));
                        if let Ok(d) = r {
                            hs.push(H::D(d));
                        }
                    }
                }
            }
            4 => {
                cell = 100 + k as i64;
                hs[i].write(cell);
            }
            _ => assert_eq!(hs[i].read(), cell),
        }
        for h in &hs {
            assert_eq!(h.read(), cell, "every live handle sees the last write");
        }
        assert_eq!(drops.load(Ordering::SeqCst), if hs.is_empty() { 1 } else { 0 }, "target dropped exactly with the last handle");
    }
    drop(hs);
    assert_eq!(drops.load(Ordering::SeqCst), 1);
}

/// Directed case for every owning variant: convert, drop every concrete handle, keep using the
/// trait-object handle. Either the conversion is refused or the result keeps the target alive.
fn to_dyn_outlives(variant: u64) {
    println!("CASE refs to_dyn_outlives variant={}", variant);
    let drops = Arc::new(AtomicUsize::new(0));
    let payload = Payload { v: 7, drops: drops.clone() };
    let first = match variant {
        0 => rc_ref_cell_reference(payload),
        1 => arc_rw_lock_reference(payload),
        _ => arc_mutex_reference(payload),
    };
    for by_clone in [true, false] {
        let src = first.clone();
        let keep = if by_clone { Some(src.clone()) } else { None };
        let r = std::panic::catch_unwind(std::panic::AssertUnwindSafe(move || {
            let d: Reference<dyn Cellish> = to_dyn!(Cellish, src);
            d
        }));
        assert!(variant != 0 || r.is_ok(), "to_dyn! must succeed for the Rc variant");
        if let Ok(d) = r {
            drop(keep);
            d.borrow_mut().write(8);
            assert_eq!(first.borrow().read(), 8, "the converted handle aliases the same object");
            if !by_clone {
                // last round: the trait-object handle is the only one left
                let d2 = d.clone();
                drop(d);
                let last = first.clone();
                drop(last);
                assert_eq!(drops.load(Ordering::SeqCst), 0);
                let _ = d2.borrow().read();
            }
        }
    }
    let d = {
        let src = first.clone();
        std::panic::catch_unwind(std::panic::AssertUnwindSafe(move || {
            let d: Reference<dyn Cellish> = to_dyn!(Cellish, src);
            d
        }))
    };
    drop(first);
    if let Ok(d) = d {
        assert_eq!(drops.load(Ordering::SeqCst), 0, "the target was dropped while a Reference<dyn _> to it is alive");
        d.borrow_mut().write(9);
        assert_eq!(d.borrow().read(), 9);
        drop(d);
    }
    assert_eq!(drops.load(Ordering::SeqCst), 1, "target dropped exactly once, with the last handle");
}

/// Borrow discipline of the Rc variant (the one whose conflicts are reported rather than waited
/// for): a writer is refused while a reader is alive and vice versa, through the concrete handle
/// and through a trait-object handle. If a conflicting borrow were granted, the uses below would
/// be a `&`/`&mut` overlap or a dangling element reference, which the interpreter reports.
/// Several SHARED borrows of one target held at once by one thread - through one handle and through
/// clones - for every variant that allows them (all but the Mutex-backed ones): `a.borrow().x +
/// b.borrow().y` is ordinary use. A variant whose second shared borrow waits for the first never
/// returns: the interpreter reports the deadlock.
fn shared_borrows_coexist() {
    println!("CASE refs shared_borrows_coexist");
    let rc = rc_ref_cell_reference(5i64);
    let rw = arc_rw_lock_reference(6i64);
    let st = static_reference!(i64, 7);
    let srw = static_rw_lock_reference!(i64, 8);
    for (r, want) in [(rc, 5i64), (rw, 6), (st, 7), (srw, 8)] {
        let r2 = r.clone();
        let a = r.borrow();
        let b = r2.borrow();
        let c = r.borrow();
        assert_eq!(*a + *b + *c, 3 * want);
    }
}

fn overlap_rules() {
    println!("CASE refs overlap_rules");
    let r = rc_ref_cell_reference(vec![1i64, 2, 3]);
    let r2 = r.clone();
    {
        let b = r.borrow();
        let first = &b[0];
        let w = std::panic::catch_unwind(std::panic::AssertUnwindSafe(|| {
            let mut g = r2.borrow_mut();
            *g = vec![9];
        }));
        assert!(w.is_err(), "a mutable borrow was granted while a shared borrow is alive");
        assert_eq!(*first, 1);
    }
    {
        let mut g = r.borrow_mut();
        let rd = std::panic::catch_unwind(std::panic::AssertUnwindSafe(|| {
            let b = r2.borrow();
            b[0]
        }));
        assert!(rd.is_err(), "a shared borrow was granted while a mutable borrow is alive");
        g.push(4);
    }
    {
        let a = r.borrow();
        let b = r2.borrow();
        assert_eq!(a[0], b[0]);
        assert_eq!(a.len(), 4);
    }
    // the same through a trait-object handle
    let drops = Arc::new(AtomicUsize::new(0));
    let c = rc_ref_cell_reference(Payload { v: 5, drops: drops.clone() });
    let d: Reference<dyn Cellish> = to_dyn!(Cellish, c.clone());
    {
        let b = d.borrow();
        let w = std::panic::catch_unwind(std::panic::AssertUnwindSafe(|| c.borrow_mut().write(6)));
        assert!(w.is_err(), "a mutable borrow was granted while a shared borrow through the trait object is alive");
        assert_eq!(b.read(), 5);
    }
    {
        let b = c.borrow();
        let w = std::panic::catch_unwind(std::panic::AssertUnwindSafe(|| d.borrow_mut().write(7)));
        assert!(w.is_err(), "a mutable borrow through the trait object was granted while a shared borrow is alive");
        assert_eq!(b.read(), 5);
    }
    d.borrow_mut().write(8);
    assert_eq!(c.borrow().read(), 8);
}

// ---- may a Reference cross a thread boundary? Decided at compile time by method resolution: the
// inherent method (bounded on Send) is a candidate only if the bound holds, else the blanket trait
// method is picked. If the type system lets an Rc-backed Reference cross, the program crosses it
// and churns the reference counts from two threads: the interpreter then reports the data race.
struct Carrier<T>(Option<T>);
trait StayHome<T> {
    fn cross(&mut self, _work: fn(T)) -> Option<std::thread::JoinHandle<()>> {
        None
    }
}
impl<T> StayHome<T> for Carrier<T> {}
#[allow(dead_code)]
impl<T: Send + 'static> Carrier<T> {
    fn cross(&mut self, work: fn(T)) -> Option<std::thread::JoinHandle<()>> {
        let content = self.0.take().unwrap();
        Some(std::thread::spawn(move || work(content)))
    }
}
fn churn(h: Reference<Payload>) {
    for _ in 0..20 {
        let extra = h.clone();
        let _ = extra.borrow().read();
        drop(extra);
    }
}
fn thread_crossing() {
    println!("CASE refs thread_crossing");
    let drops = Arc::new(AtomicUsize::new(0));
    let r = rc_ref_cell_reference(Payload { v: 3, drops: drops.clone() });
    let mut carrier = Carrier(Some(r.clone()));
    let crossed = carrier.cross(churn);
    let did_cross = crossed.is_some();
    if did_cross {
        println!("NOTE an Rc-backed Reference was allowed to move to another thread");
    }
    churn(r.clone());
    if let Some(h) = crossed {
        h.join().unwrap();
    }
    drop(carrier);
    assert_eq!(drops.load(Ordering::SeqCst), 0);
    assert_eq!(r.borrow().read(), 3);
    drop(r);
    assert_eq!(drops.load(Ordering::SeqCst), 1);
    assert!(!did_cross, "a Reference that may hold an Rc<RefCell<_>> or a bare pointer is Send");
}

fn statics() {
    println!("CASE refs statics");
    let a = static_reference!(i64, 5);
    let b = a.clone();
    *b.borrow_mut() += 1;
    assert_eq!(*a.borrow(), 6);
    let c = static_rw_lock_reference!(i64, 5);
    let d = c.clone();
    *d.borrow_mut() += 2;
    assert_eq!(*c.borrow(), 7);
    let e = static_mutex_reference!(i64, 5);
    let f = e.clone();
    *f.borrow_mut() += 3;
    assert_eq!(*e.borrow(), 8);
    let g: Reference<dyn core::fmt::Debug> = to_dyn!(core::fmt::Debug, static_reference!(u8, 9));
    assert_eq!(format!("{:?}", &*g.borrow()), "9");
    let h: Reference<dyn core::fmt::Debug> = to_dyn!(core::fmt::Debug, static_rw_lock_reference!(u8, 4));
    assert_eq!(format!("{:?}", &*h.borrow()), "4");
}

fn threads() {
    println!("CASE refs threads");
    let m = Arc::new(std::sync::Mutex::new(0u64));
    let r = Arc::new(std::sync::RwLock::new(0u64));
    let mut js = Vec::new();
    for _ in 0..3 {
        let (m2, r2) = (m.clone(), r.clone());
        js.push(std::thread::spawn(move || {
            let rm = Reference::from_arc_mutex(m2);
            let rr = Reference::from_arc_rw_lock(r2);
            for _ in 0..20 {
                *rm.borrow_mut() += 1;
                *rr.borrow_mut() += 1;
                let _ = *rr.borrow();
            }
        }));
    }
    for j in js {
        j.join().unwrap();
    }
    assert_eq!(*m.lock().unwrap(), 60);
    assert_eq!(*r.read().unwrap(), 60);
}

fn main() {
    let args: Vec<String> = std::env::args().collect();
    // refusals of to_dyn! (unimplemented!()) are expected: keep them out of the output
    std::panic::set_hook(Box::new(|info| {
        let m = info.to_string();
        if !m.contains("not implemented") && !m.contains("already") && !m.contains("borrow failed") {
            eprintln!("{}", info);
        }
    }));
    let mut s: u64 = args.get(1).and_then(|x| x.parse().ok()).unwrap_or(1);
    let count: u64 = args.get(2).and_then(|x| x.parse().ok()).unwrap_or(12);
    let mut cases = 0;
    for k in 0..count {
        history(k % 3, &mut s);
        cases += 1;
    }
    for v in 0..3 {
        to_dyn_outlives(v);
    }
    overlap_rules();
    shared_borrows_coexist();
    thread_crossing();
    statics();
    threads();
    println!("DONE cases={}", cases + 8);
}
